"""C09 -- syntax-quote is hygienic and destructuring binds what nth/get would return."""
from __future__ import annotations

import ast

from ..core import AnalysisError, rule
from .. import lispread as L
from .. import pyfacts as P
from ..pycfg import CFG

CORE = "src/basilisp/core.lpy"
RD = "src/basilisp/lang/reader.py"
RT = "src/basilisp/lang/runtime.py"

EXPLANATION = (
    "Template rules: in destructure-binding every map-binding builder emits (get m K default) and (get m K) with the same key "
    "template K (sibling agreement inside one function); sequential children are bound by (nth v i nil), rests by nthnext, map "
    "children by get with the default as third argument; the reader pushes and pops the syntax-quote flag and the gensym "
    "environment together, consults the environment before generating, and resolves every syntax-quoted symbol except the "
    "enumerated exemptions; resolve_alias qualifies every unqualified non-special symbol."
)
DECIDES = "destructuring templates (key agreement, documented accessors), gensym environment scoping, resolution of syntax-quoted symbols"
DECLINED = "every pattern x every value; macroexpansion equivalence (runtime values)"
TRUSTED = ["nth / nthnext / get semantics of basilisp.core"]
ASSUMPTIONS = []
TECHNIQUE = "sibling-template agreement over syntax-quoted forms in core.lpy (own reader) + AST/CFG rules over the reader"


def _method(ctx, name, dispatch):
    for top in ctx.lisp(CORE):
        if L.head(top) == "defmethod" and len(top.items) > 3 and L.is_sym(top.items[1], name) and isinstance(top.items[2], L.Kw) and top.items[2].val == dispatch:
            return top
    raise AnalysisError(f"anchor vanished: core.lpy (defmethod {name} :{dispatch})")


def _get_templates(form):
    """All syntax-quoted (get ~m K [D]) templates below form."""
    out = []
    for f in L.walk(form):
        if isinstance(f, L.Wrap) and f.tag == "syntax-quote" and L.head(f.form) == "get":
            out.append(f.form)
    return out


@rule("C09.R1", floor=4)
def r1_or_default_does_not_change_the_key(ctx):
    """In each local binding builder of destructure-binding :map, the branch with an :or default and
    the branch without one look up the same key template."""
    m = _method(ctx, "destructure-binding", "map")
    letf = m.items[-1]
    if L.head(letf) not in ("let", "let*"):
        raise AnalysisError("destructure-binding :map is no longer a let of local builders")
    binds = letf.items[1].items
    n = 0
    for k, v in zip(binds[0::2], binds[1::2]):
        if not (isinstance(k, L.Sym) and L.head(v) in ("fn", "fn*")):
            continue
        ifs = [f for f in L.walk(v) if L.head(f) == "if" and len(f.items) == 4 and L.head(f.items[1]) == "contains?"]
        for i in ifs:
            a, b = _get_templates(i.items[2]), _get_templates(i.items[3])
            if len(a) != 1 or len(b) != 1:
                continue
            n += 1
            ka, kb = a[0].items[2].text(), b[0].items[2].text()
            ok = ka == kb and len(a[0].items) == 4 and len(b[0].items) == 3 and a[0].items[1].text() == b[0].items[1].text()
            ctx.ob("C09.R1", f"{CORE}::destructure-binding :map::{k.val}::key template {ka} / {kb}", CORE, i.line, ok,
                   "" if ok else f"with an :or default the key is looked up as {ka}, without one as {kb}: adding a default changes which key is read",
                   witness="(let [{a 'k :or {a 1}} {'k 5}] a) => 1")
    # whether a default applies must be decided by *presence* in the :or map, never by the truth
    # value of the default itself ({:or {a false}} / {:or {a nil}} are legitimate)
    for f in L.walk(m):
        h = L.head(f)
        test = None
        if h in ("if-let", "when-let", "if-some", "when-some") and len(f.items) > 1 and isinstance(f.items[1], L.Vec) and len(f.items[1].items) >= 2:
            test = f.items[1].items[1]
        elif h in ("if", "when", "if-not", "when-not", "cond->") and len(f.items) > 1:
            test = f.items[1]
        if test is None:
            continue
        reads_default = (L.head(test) == "get" and len(test.items) >= 2 and L.is_sym(test.items[1], "ors")) or (L.head(test) == "ors")
        if reads_default:
            n += 1
            ctx.ob("C09.R1", f"{CORE}::destructure-binding :map::{h} on `{test.text()}`", CORE, f.line, h in ("if-some", "when-some") and False,
                   f"`({h} ... {test.text()} ...)` decides by the truth value of the default: an :or default of false (or nil) is ignored and the name is bound to nil",
                   witness="(let [{:keys [a] :or {a false}} {}] a) => nil instead of false")
    if n == 0:
        raise AnalysisError("no :or default builders found in destructure-binding :map")


@rule("C09.R2", floor=4)
def r2_documented_accessors(ctx):
    """Sequential children are bound by `(nth ~v ~idx nil)`, rests by `(nthnext ~v ~start)`, map
    children by get (never (or (get ..) default)), :as names the value itself."""
    v = _method(ctx, "destructure-binding", "vector")
    txt = v.text()
    ok = "`(nth ~fn-arg ~idx nil)" in txt
    ctx.ob("C09.R2", f"{CORE}::destructure-binding :vector::child = (nth v idx nil)", CORE, v.line, ok, "" if ok else "positional children are not bound with (nth v idx nil): too-short or nil data would throw or bind something else")
    ok = "`(nthnext ~fn-arg ~(:starts rest-def))" in txt
    ctx.ob("C09.R2", f"{CORE}::destructure-binding :vector::rest = (nthnext v start)", CORE, v.line, ok, "" if ok else "the & rest is not bound with nthnext")
    m = _method(ctx, "destructure-binding", "map")
    gets = _get_templates(m)
    bad = [g for g in gets if len(g.items) not in (3, 4) or g.items[1].text() != "~fn-arg"]
    ors = [f for f in L.walk(m) if isinstance(f, L.Wrap) and f.tag == "syntax-quote" and L.head(f.form) == "or"]
    ok = bool(gets) and not bad and not ors
    ctx.ob("C09.R2", f"{CORE}::destructure-binding :map::{len(gets)} get templates on the map argument", CORE, m.line, ok,
           "" if ok else ("a default is applied with (or (get ..) default): a present false/nil value would be replaced by the default" if ors else "a map child is not bound by (get m key [default])"))
    dv = _method(ctx, "destructure-def", "vector")
    ok = "{:name (or alias (gensym \"vec_arg_\"))" in dv.text().replace("  ", " ").replace("       ", " ") or "(or alias (gensym" in dv.text()
    ctx.ob("C09.R2", f"{CORE}::destructure-def :vector:::as names the whole value", CORE, dv.line, ok, "" if ok else ":as no longer names the destructured value itself")


@rule("C09.R3", floor=4)
def r3_gensym_environment_per_template(ctx):
    """ReaderContext.syntax_quoted() pushes and pops the quote flag and a fresh gensym environment
    together; unquoted() pushes only the flag; _process_syntax_quoted_form looks a gensym up in the
    environment before generating one with genname and stores it."""
    tree = ctx.py(RD)
    rc = P.find_def(tree, "ReaderContext")
    if rc is None:
        raise AnalysisError("anchor vanished: ReaderContext")
    ms = P.methods(rc)
    sq, uq = ms.get("syntax_quoted"), ms.get("unquoted")
    if sq is None or uq is None:
        raise AnalysisError("anchor vanished: ReaderContext.syntax_quoted / unquoted")
    calls = [P.un(c) for c in sorted(P.calls(sq), key=lambda c: c.lineno)]
    ok = "self._syntax_quoted.append(True)" in calls and "self._gensym_env.append({})" in calls and "self._gensym_env.pop()" in calls and "self._syntax_quoted.pop()" in calls
    ctx.ob("C09.R3", f"{RD}::ReaderContext.syntax_quoted::flag and fresh gensym env pushed/popped together", RD, sq.lineno, ok, "" if ok else f"syntax_quoted() does {calls}: gensyms would be shared across templates or the flag would outlive the template")
    calls = [P.un(c) for c in P.calls(uq)]
    ok = "self._syntax_quoted.append(False)" in calls and not any("_gensym_env" in c for c in calls)
    ctx.ob("C09.R3", f"{RD}::ReaderContext.unquoted::only the flag", RD, uq.lineno, ok, "" if ok else "unquoted() touches the gensym environment: x# inside ~(...) `(...) would not be the same symbol within one template")
    pf = ctx.fn(RD, "_process_syntax_quoted_form")
    txt = P.un(pf)
    ok = "ctx.gensym_env[form.name]" in txt and "langutil.genname(form.name[:-1])" in txt and "ctx.gensym_env[form.name] = genned" in txt
    ctx.ob("C09.R3", f"{RD}::_process_syntax_quoted_form::lookup before generate, then remember", RD, pf.lineno, ok, "" if ok else "auto-gensyms are not memoised per template")
    tries = [t for t in ast.walk(pf) if isinstance(t, ast.Try)]
    ok = any("ctx.gensym_env[form.name]" in P.un(t.body[0]) and any("genname" in P.un(h) for h in t.handlers) for t in tries)
    ctx.ob("C09.R3", f"{RD}::_process_syntax_quoted_form::a new name only on a miss", RD, pf.lineno, ok, "" if ok else "a fresh name is generated even when the template already has one for x#")


@rule("C09.R4", floor=3)
def r4_every_syntax_quoted_symbol_is_resolved(ctx):
    """In _read_sym every Symbol returned on a syntax-quoted path goes through ctx.resolve, except
    gensyms (x#), `&`, leading-dot names and reader-macro tag symbols; resolve_alias leaves special
    forms alone and qualifies everything else with the namespace it resolves to."""
    f = ctx.fn(RD, "_read_sym")
    g = CFG(f)
    res = [nd for nd in g.nodes if nd.kind == "stmt" and isinstance(nd.ast, ast.Return) and "ctx.resolve(" in P.un(nd.ast)]
    if not res:
        ctx.ob("C09.R4", f"{RD}::_read_sym::resolves syntax-quoted symbols", RD, f.lineno, False, "no return goes through ctx.resolve: symbols in templates keep whatever namespace the macro's caller happens to be in")
    guard = [nd for nd in g.nodes if nd.kind == "test" and "ctx.is_syntax_quoted" in P.un(nd.ast)]
    final = [nd for nd in g.nodes if nd.kind == "stmt" and isinstance(nd.ast, ast.Return) and P.un(nd.ast.value) == "sym.symbol(name, ns=ns)"]
    ok = bool(res) and bool(final)
    if ok:
        # the plain return is reachable only when not syntax-quoted, or for a gensym / tag symbol
        def exempt(a, b, lab):
            t = P.un(a.ast) if a.kind == "test" else ""
            return a.kind == "test" and lab is False and (t == "ctx.is_syntax_quoted" or t == "name.endswith('#')" or t == "is_reader_macro_sym") or (a.kind == "test" and lab is True and t in ("name.endswith('#')", "is_reader_macro_sym"))
        ok = all(g.edge_dominated(nd, exempt) for nd in final)
    ctx.ob("C09.R4", f"{RD}::_read_sym::unresolved symbols only outside syntax-quote (or gensym / tag)", RD, f.lineno, ok, "" if ok else "a syntax-quoted symbol can be returned without ctx.resolve")
    tests = [P.un(nd.ast) for nd in guard]
    ok = any("ctx.is_syntax_quoted" == t for t in tests)
    ctx.ob("C09.R4", f"{RD}::_read_sym::guard tests {sorted(set(tests))}", RD, f.lineno, ok, "" if ok else "the syntax-quote guard changed shape")
    ra = ctx.fn(RT, "resolve_alias")
    txt = P.un(ra)
    ok = "is_special_form(s)" in txt.replace("s in _SPECIAL_FORMS", "is_special_form(s)") or "_SPECIAL_FORMS" in txt
    ctx.ob("C09.R4", f"{RT}::resolve_alias::special forms stay unqualified", RT, ra.lineno, ok, "" if ok else "special forms would be namespace-qualified inside templates")
    ok = "sym.symbol(which_var.name.name, which_var.ns.name)" in txt and "sym.symbol(s.name, ns=ns.name)" in txt
    ctx.ob("C09.R4", f"{RT}::resolve_alias::interned/referred -> the Var's namespace, otherwise the current namespace", RT, ra.lineno, ok, "" if ok else "unqualified symbols are not qualified with the namespace of the Var they denote")


SELFTEST = [
    {"name": ":or changes the key (the repaired defect)", "file": CORE, "expect": "C09.R1",
     "old": "[binding `(get ~fn-arg ~key ~(get ors binding))]", "new": "[binding `(get ~fn-arg (quote ~key) ~(get ors binding))]"},
    {"name": "kw-binding default via or", "file": CORE, "expect": "C09.R2",
     "old": "                         [sym `(get ~fn-arg ~kw ~(get ors sym))]", "new": "                         [sym `(or (get ~fn-arg ~kw) ~(get ors sym))]"},
    {"name": "positional children without the nil default", "file": CORE, "expect": "C09.R2",
     "old": "[alias `(nth ~fn-arg ~idx nil)]", "new": "[alias `(nth ~fn-arg ~idx)]"},
    {"name": "gensym env shared across templates", "file": RD, "expect": "C09.R3",
     "old": "        self._syntax_quoted.append(True)\n        self._gensym_env.append({})\n        yield\n        self._gensym_env.pop()\n        self._syntax_quoted.pop()\n", "new": "        self._syntax_quoted.append(True)\n        yield\n        self._syntax_quoted.pop()\n"},
    {"name": "unquote starts a new gensym env", "file": RD, "expect": "C09.R3",
     "old": "        self._syntax_quoted.append(False)\n        yield\n        self._syntax_quoted.pop()\n", "new": "        self._syntax_quoted.append(False)\n        self._gensym_env.append({})\n        yield\n        self._gensym_env.pop()\n        self._syntax_quoted.pop()\n"},
    {"name": "namespaced symbols skip resolution", "file": RD, "expect": "C09.R4",
     "old": "    if ctx.is_syntax_quoted and not name.endswith(\"#\") and not is_reader_macro_sym:\n        return ctx.resolve(sym.symbol(name, ns))", "new": "    if ctx.is_syntax_quoted and ns is None and not name.endswith(\"#\") and not is_reader_macro_sym:\n        return ctx.resolve(sym.symbol(name, ns))"},
]
