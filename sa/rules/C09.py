"""C09 -- syntax-quote is hygienic and destructuring binds what nth/get would return."""
from __future__ import annotations

import ast

from ..core import AnalysisError, rule
from .. import lispread as L
from .. import pyfacts as P
from ..pycfg import CFG

CORE = "src/basilisp/core.lpy"
RD = "src/basilisp/lang/reader.py"
RT = "src/basilisp/lang/runtime.py"

EXPLANATION = (
    "Template rules: in destructure-binding every map-binding builder emits (get m K default) and (get m K) with the same key "
    "template K (sibling agreement inside one function); sequential children are bound by (nth v i nil), rests by nthnext, map "
    "children by get with the default as third argument; the reader pushes and pops the syntax-quote flag and the gensym "
    "environment together, consults the environment before generating, and resolves every syntax-quoted symbol except the "
    "enumerated exemptions; resolve_alias qualifies every unqualified non-special symbol."
)
DECIDES = "destructuring templates (key agreement, documented accessors), gensym environment scoping, resolution of syntax-quoted symbols, every sub-pattern expanded once in place, names bound in source order in fn and loop, collection kinds rebuilt by syntax-quote at every size, resolution is asked anew for every symbol (no memoisation across the forms of a stream)"
DECLINED = "every pattern x every value; macroexpansion equivalence (runtime values)"
TRUSTED = ["nth / nthnext / get semantics of basilisp.core"]
ASSUMPTIONS = []
TECHNIQUE = "sibling-template agreement over syntax-quoted forms in core.lpy (own reader) + AST/CFG rules over the reader"


def _method(ctx, name, dispatch):
    for top in ctx.lisp(CORE):
        if L.head(top) == "defmethod" and len(top.items) > 3 and L.is_sym(top.items[1], name) and isinstance(top.items[2], L.Kw) and top.items[2].val == dispatch:
            return top
    raise AnalysisError(f"anchor vanished: core.lpy (defmethod {name} :{dispatch})")


def _get_templates(form):
    """All syntax-quoted (get ~m K [D]) templates below form."""
    out = []
    for f in L.walk(form):
        if isinstance(f, L.Wrap) and f.tag == "syntax-quote" and L.head(f.form) == "get":
            out.append(f.form)
    return out


@rule("C09.R1", floor=4)
def r1_or_default_does_not_change_the_key(ctx):
    """In each local binding builder of destructure-binding :map, the branch with an :or default and
    the branch without one look up the same key template."""
    m = _method(ctx, "destructure-binding", "map")
    letf = m.items[-1]
    if L.head(letf) not in ("let", "let*"):
        raise AnalysisError("destructure-binding :map is no longer a let of local builders")
    binds = letf.items[1].items
    n = 0
    for k, v in zip(binds[0::2], binds[1::2]):
        if not (isinstance(k, L.Sym) and L.head(v) in ("fn", "fn*")):
            continue
        ifs = [f for f in L.walk(v) if L.head(f) == "if" and len(f.items) == 4 and L.head(f.items[1]) == "contains?"]
        for i in ifs:
            a, b = _get_templates(i.items[2]), _get_templates(i.items[3])
            if len(a) != 1 or len(b) != 1:
                continue
            n += 1
            ka, kb = a[0].items[2].text(), b[0].items[2].text()
            ok = ka == kb and len(a[0].items) == 4 and len(b[0].items) == 3 and a[0].items[1].text() == b[0].items[1].text()
            ctx.ob("C09.R1", f"{CORE}::destructure-binding :map::{k.val}::key template {ka} / {kb}", CORE, i.line, ok,
                   "" if ok else f"with an :or default the key is looked up as {ka}, without one as {kb}: adding a default changes which key is read",
                   witness="(let [{a 'k :or {a 1}} {'k 5}] a) => 1")
    # whether a default applies must be decided by *presence* in the :or map, never by the truth
    # value of the default itself ({:or {a false}} / {:or {a nil}} are legitimate)
    for f in L.walk(m):
        h = L.head(f)
        test = None
        if h in ("if-let", "when-let", "if-some", "when-some") and len(f.items) > 1 and isinstance(f.items[1], L.Vec) and len(f.items[1].items) >= 2:
            test = f.items[1].items[1]
        elif h in ("if", "when", "if-not", "when-not", "cond->") and len(f.items) > 1:
            test = f.items[1]
        if test is None:
            continue
        reads_default = (L.head(test) == "get" and len(test.items) >= 2 and L.is_sym(test.items[1], "ors")) or (L.head(test) == "ors")
        if reads_default:
            n += 1
            ctx.ob("C09.R1", f"{CORE}::destructure-binding :map::{h} on `{test.text()}`", CORE, f.line, h in ("if-some", "when-some") and False,
                   f"`({h} ... {test.text()} ...)` decides by the truth value of the default: an :or default of false (or nil) is ignored and the name is bound to nil",
                   witness="(let [{:keys [a] :or {a false}} {}] a) => nil instead of false")
    if n == 0:
        raise AnalysisError("no :or default builders found in destructure-binding :map")


@rule("C09.R2", floor=4)
def r2_documented_accessors(ctx):
    """Sequential children are bound by `(nth ~v ~idx nil)`, rests by `(nthnext ~v ~start)`, map
    children by get (never (or (get ..) default)), :as names the value itself."""
    v = _method(ctx, "destructure-binding", "vector")
    txt = v.text()
    ok = "`(nth ~fn-arg ~idx nil)" in txt
    ctx.ob("C09.R2", f"{CORE}::destructure-binding :vector::child = (nth v idx nil)", CORE, v.line, ok, "" if ok else "positional children are not bound with (nth v idx nil): too-short or nil data would throw or bind something else")
    ok = "`(nthnext ~fn-arg ~(:starts rest-def))" in txt
    ctx.ob("C09.R2", f"{CORE}::destructure-binding :vector::rest = (nthnext v start)", CORE, v.line, ok, "" if ok else "the & rest is not bound with nthnext")
    m = _method(ctx, "destructure-binding", "map")
    gets = _get_templates(m)
    bad = [g for g in gets if len(g.items) not in (3, 4) or g.items[1].text() != "~fn-arg"]
    ors = [f for f in L.walk(m) if isinstance(f, L.Wrap) and f.tag == "syntax-quote" and L.head(f.form) == "or"]
    ok = bool(gets) and not bad and not ors
    ctx.ob("C09.R2", f"{CORE}::destructure-binding :map::{len(gets)} get templates on the map argument", CORE, m.line, ok,
           "" if ok else ("a default is applied with (or (get ..) default): a present false/nil value would be replaced by the default" if ors else "a map child is not bound by (get m key [default])"))
    dv = _method(ctx, "destructure-def", "vector")
    ok = "{:name (or alias (gensym \"vec_arg_\"))" in dv.text().replace("  ", " ").replace("       ", " ") or "(or alias (gensym" in dv.text()
    ctx.ob("C09.R2", f"{CORE}::destructure-def :vector:::as names the whole value", CORE, dv.line, ok, "" if ok else ":as no longer names the destructured value itself")


@rule("C09.R3", floor=4)
def r3_gensym_environment_per_template(ctx):
    """ReaderContext.syntax_quoted() pushes and pops the quote flag and a fresh gensym environment
    together; unquoted() pushes only the flag; _process_syntax_quoted_form looks a gensym up in the
    environment before generating one with genname and stores it."""
    tree = ctx.py(RD)
    rc = P.find_def(tree, "ReaderContext")
    if rc is None:
        raise AnalysisError("anchor vanished: ReaderContext")
    ms = P.methods(rc)
    sq, uq = ms.get("syntax_quoted"), ms.get("unquoted")
    if sq is None or uq is None:
        raise AnalysisError("anchor vanished: ReaderContext.syntax_quoted / unquoted")
    calls = [P.un(c) for c in sorted(P.calls(sq), key=lambda c: c.lineno)]
    ok = "self._syntax_quoted.append(True)" in calls and "self._gensym_env.append({})" in calls and "self._gensym_env.pop()" in calls and "self._syntax_quoted.pop()" in calls
    ctx.ob("C09.R3", f"{RD}::ReaderContext.syntax_quoted::flag and fresh gensym env pushed/popped together", RD, sq.lineno, ok, "" if ok else f"syntax_quoted() does {calls}: gensyms would be shared across templates or the flag would outlive the template")
    calls = [P.un(c) for c in P.calls(uq)]
    ok = "self._syntax_quoted.append(False)" in calls and not any("_gensym_env" in c for c in calls)
    ctx.ob("C09.R3", f"{RD}::ReaderContext.unquoted::only the flag", RD, uq.lineno, ok, "" if ok else "unquoted() touches the gensym environment: x# inside ~(...) `(...) would not be the same symbol within one template")
    pf = ctx.fn(RD, "_process_syntax_quoted_form")
    txt = P.un(pf)
    ok = "ctx.gensym_env[form.name]" in txt and "langutil.genname(form.name[:-1])" in txt and "ctx.gensym_env[form.name] = genned" in txt
    ctx.ob("C09.R3", f"{RD}::_process_syntax_quoted_form::lookup before generate, then remember", RD, pf.lineno, ok, "" if ok else "auto-gensyms are not memoised per template")
    tries = [t for t in ast.walk(pf) if isinstance(t, ast.Try)]
    ok = any("ctx.gensym_env[form.name]" in P.un(t.body[0]) and any("genname" in P.un(h) for h in t.handlers) for t in tries)
    ctx.ob("C09.R3", f"{RD}::_process_syntax_quoted_form::a new name only on a miss", RD, pf.lineno, ok, "" if ok else "a fresh name is generated even when the template already has one for x#")


@rule("C09.R4", floor=3)
def r4_every_syntax_quoted_symbol_is_resolved(ctx):
    """In _read_sym every Symbol returned on a syntax-quoted path goes through ctx.resolve, except
    gensyms (x#), `&`, leading-dot names and reader-macro tag symbols; resolve_alias leaves special
    forms alone and qualifies everything else with the namespace it resolves to."""
    f = ctx.fn(RD, "_read_sym")
    g = CFG(f)
    res = [nd for nd in g.nodes if nd.kind == "stmt" and isinstance(nd.ast, ast.Return) and "ctx.resolve(" in P.un(nd.ast)]
    if not res:
        ctx.ob("C09.R4", f"{RD}::_read_sym::resolves syntax-quoted symbols", RD, f.lineno, False, "no return goes through ctx.resolve: symbols in templates keep whatever namespace the macro's caller happens to be in")
    guard = [nd for nd in g.nodes if nd.kind == "test" and "ctx.is_syntax_quoted" in P.un(nd.ast)]
    final = [nd for nd in g.nodes if nd.kind == "stmt" and isinstance(nd.ast, ast.Return) and P.un(nd.ast.value) == "sym.symbol(name, ns=ns)"]
    ok = bool(res) and bool(final)
    if ok:
        # the plain return is reachable only when not syntax-quoted, or for a gensym / tag symbol
        def exempt(a, b, lab):
            t = P.un(a.ast) if a.kind == "test" else ""
            return a.kind == "test" and lab is False and (t == "ctx.is_syntax_quoted" or t == "name.endswith('#')" or t == "is_reader_macro_sym") or (a.kind == "test" and lab is True and t in ("name.endswith('#')", "is_reader_macro_sym"))
        ok = all(g.edge_dominated(nd, exempt) for nd in final)
    ctx.ob("C09.R4", f"{RD}::_read_sym::unresolved symbols only outside syntax-quote (or gensym / tag)", RD, f.lineno, ok, "" if ok else "a syntax-quoted symbol can be returned without ctx.resolve")
    tests = [P.un(nd.ast) for nd in guard]
    ok = any("ctx.is_syntax_quoted" == t for t in tests)
    ctx.ob("C09.R4", f"{RD}::_read_sym::guard tests {sorted(set(tests))}", RD, f.lineno, ok, "" if ok else "the syntax-quote guard changed shape")
    ra = ctx.fn(RT, "resolve_alias")
    txt = P.un(ra)
    ok = "is_special_form(s)" in txt.replace("s in _SPECIAL_FORMS", "is_special_form(s)") or "_SPECIAL_FORMS" in txt
    ctx.ob("C09.R4", f"{RT}::resolve_alias::special forms stay unqualified", RT, ra.lineno, ok, "" if ok else "special forms would be namespace-qualified inside templates")
    problem = resolve_alias_problem(ra)
    ctx.ob("C09.R4", f"{RT}::resolve_alias::interned/referred -> the Var's own name and namespace, otherwise the current namespace", RT, ra.lineno, problem is None, problem or "",
           witness="(refer 'lib :rename '{orig renamed}) then `renamed must read lib/orig")


def resolve_alias_problem(ra):
    """resolve_alias looks the bare symbol up in the namespace (`ns.find`) and qualifies it.  A symbol
    built with the found Var's namespace must also carry the found Var's *name*: a referred Var can
    be known under another name (:rename), and `lib/<the local nickname>` is a different Var or none.
    Decided by taint: every name computed from the lookup result is 'from the Var'; a sym.symbol(...)
    whose namespace argument is from the Var while its name argument is not is the defect."""
    finds = [a for a in ast.walk(ra) if isinstance(a, ast.Assign) and isinstance(a.value, ast.Call) and P.un(a.value.func).endswith(".find") and len(a.targets) == 1 and isinstance(a.targets[0], ast.Name)]
    if not finds:
        return "resolve_alias no longer looks the symbol up with ns.find: cannot tell which Var a bare symbol denotes"
    tainted = {finds[0].targets[0].id}
    changed = True
    while changed:
        changed = False
        for a in ast.walk(ra):
            if isinstance(a, ast.Assign) and len(a.targets) == 1 and isinstance(a.targets[0], ast.Name) and a.targets[0].id not in tainted:
                if any(isinstance(x, ast.Name) and x.id in tainted for x in ast.walk(a.value)):
                    tainted.add(a.targets[0].id)
                    changed = True

    def from_var(e):
        return any(isinstance(x, ast.Name) and x.id in tainted for x in ast.walk(e))
    syms = [c for c in ast.walk(ra) if isinstance(c, ast.Call) and P.un(c.func) in ("sym.symbol", "symbol") and c.args]
    used = False
    for c in syms:
        name_arg = c.args[0]
        ns_arg = c.args[1] if len(c.args) > 1 else next((k.value for k in c.keywords if k.arg == "ns"), None)
        if ns_arg is None or isinstance(P.parent(c), ast.Call) and P.un(P.parent(c).func).endswith(".find"):
            continue
        if from_var(ns_arg):
            used = True
            if not from_var(name_arg):
                return f"`{P.un(c)}` takes the namespace from the Var the symbol denotes but keeps the name as written: a Var referred under another name (:rename) resolves to lib/<nickname>"
    if not used:
        return "no symbol is qualified with the namespace of the Var it denotes: referred names would be qualified with the current namespace"
    return None


ANA = "src/basilisp/lang/compiler/analyzer.py"


@rule("C09.R6", floor=1)
def r6_inline_templates_are_resolved_where_they_are_written(ctx):
    """An automatically generated :inline function is the function body turned into a syntax-quote
    template that is expanded at every call site.  Like any template it must have its free symbols
    resolved in the namespace where it was written (the syntax-quote machinery does that when it is
    given the namespace resolver); otherwise `+` in the body of basilisp.core/inc means whatever
    `+` means at the call site."""
    fn = ctx.fn(ANA, "_inline_fn_ast")
    calls = [c for c in P.calls(fn) if P.un(c.func).endswith("syntax_quote")]
    if not calls:
        raise AnalysisError("anchor vanished: _inline_fn_ast no longer builds its template with reader.syntax_quote")
    tree = ctx.py(ANA)
    for c in calls:
        with_resolver = any(k.arg == "resolver" and not (isinstance(k.value, ast.Constant) and k.value.value is None) for k in c.keywords) or len(c.args) >= 2
        # or: the body's symbols that the analyzer resolved to Vars (VarRef nodes) are rewritten to the
        # Var's own qualified name before the form is quoted -- a collector over the analysed body
        # fills a mapping that the rewriting walk of the body form consults
        pre_qualified = False
        for hc in P.calls(fn):
            h = P.find_def(tree, P.un(hc.func))
            if h is None or h is fn or not hc.args:
                continue
            htxt = P.un(h)
            if "VarRef" in htxt and ".var.ns" in htxt and "sym.symbol(" in htxt:
                mapping = {P.un(a) for a in hc.args if isinstance(a, ast.Name)}
                walks = [w for w in P.calls(fn) if P.un(w.func).endswith("_postwalk")]
                pre_qualified = any(any(isinstance(x, ast.Name) and x.id in mapping for x in ast.walk(w)) for w in walks)
        ok = with_resolver or pre_qualified
        ctx.ob("C09.R6", f"{ANA}::_inline_fn_ast::the inline template's free symbols are resolved in the defining namespace", ANA, c.lineno, ok,
               "" if ok else "the inline template is syntax-quoted without a resolver and without qualifying the Vars the body refers to: its free symbols are looked up in the caller's namespace",
               witness="in a fresh namespace: (def + -) (inc 5) => 4")


def _children_traversals(method, group_text):
    """Forms of `method` that walk the child group `group_text` and expand nested patterns there
    (mention destructure-binding): threaded pipelines starting at the group, or calls taking it."""
    out = []
    for f in L.walk(method):
        if not isinstance(f, L.List) or not f.items:
            continue
        h = L.head(f)
        src = None
        if h in ("->>", "->") and len(f.items) > 2:
            src = f.items[1]
        elif h in ("map", "mapcat", "map-indexed", "keep", "for") and len(f.items) >= 3:
            src = f.items[-1]
        if src is not None and src.text() == group_text and any(L.is_sym(x, "destructure-binding") for x in L.walk(f)):
            # count the outermost form only
            if not any(a in out for a in L.ancestors(f)):
                out.append(f)
    return out


@rule("C09.R5", floor=5)
def r5_every_subpattern_expanded_once_in_place(ctx):
    """A binding vector is a sequence of let bindings, so later names shadow earlier ones.  The
    expansion must therefore (a) pass every sub-pattern position -- sequential child, rest, map
    child -- through destructure-def (a raw pattern used as a binding name does not compile),
    (b) expand each nested pattern exactly once, and for vectors directly after the name bound to
    its value (a second expansion at the end re-binds its names after, and over, the later siblings),
    and (c) treat the last keyword argument as a trailing map only when it is unpaired."""
    vdef = _method(ctx, "destructure-def", "vector")
    rest_forms = [v for f in L.walk(vdef) if isinstance(f, L.Map) for k, v in f.pairs() if k.text() == ":rest"]
    if not rest_forms:
        raise AnalysisError("anchor vanished: destructure-def :vector no longer records :rest")
    ok = any(L.is_sym(x, "destructure-def") for x in L.walk(rest_forms[0]))
    ctx.ob("C09.R5", f"{CORE}::destructure-def :vector::the rest pattern goes through destructure-def", CORE, rest_forms[0].line, ok,
           "" if ok else "the form after & is used as a binding name as written: a nested pattern there ([a & [b c]], [a & {:keys [k]}]) does not macroexpand",
           witness="(let [[a & [b c]] [1 2 3]] [a b c])")
    ch = [v for f in L.walk(vdef) if isinstance(f, L.Map) for k, v in f.pairs() if k.text() == ":children"]
    ok = bool(ch) and any(L.is_sym(x, "destructure-def") for x in L.walk(ch[0]))
    ctx.ob("C09.R5", f"{CORE}::destructure-def :vector::sequential children go through destructure-def", CORE, vdef.line, ok, "" if ok else "sequential children are not normalised")
    mdef = _method(ctx, "destructure-def", "map")
    ok = any(L.head(x) == "destructure-def" for x in L.walk(mdef))
    ctx.ob("C09.R5", f"{CORE}::destructure-def :map::map children go through destructure-def", CORE, mdef.line, ok, "" if ok else "map children are not normalised")

    vb = _method(ctx, "destructure-binding", "vector")
    tr = _children_traversals(vb, "(:children ddef)")
    ok = len(tr) == 1
    ctx.ob("C09.R5", f"{CORE}::destructure-binding :vector::nested patterns expanded once ({len(tr)} traversal(s) of the children expand them)", CORE, vb.line, ok,
           "" if ok else "the children are walked " + str(len(tr)) + " times with destructure-binding: the names of a nested pattern are bound again after the later siblings and shadow them",
           witness="(let [[[a] a] [[1] 2]] a) must be 2")
    inplace = False
    for t in tr[:1]:
        for f in L.walk(t):
            if L.head(f) == "concat" and any(isinstance(x, L.Vec) and x.items and L.is_sym(x.items[0], "alias") for x in f.items[1:]) and any(L.is_sym(y, "destructure-binding") for x in f.items[1:] for y in L.walk(x)):
                inplace = True
    ctx.ob("C09.R5", f"{CORE}::destructure-binding :vector::nested pattern expanded directly after its alias", CORE, vb.line, inplace,
           "" if inplace else "a nested pattern's bindings are not emitted next to the name bound to its value: source order of shadowing is lost")
    rest_ok = any(L.head(f) in ("destructure-binding",) and ":binding" in f.text() and "rest" in f.text() for f in L.walk(vb))
    ctx.ob("C09.R5", f"{CORE}::destructure-binding :vector::the rest pattern is expanded", CORE, vb.line, rest_ok,
           "" if rest_ok else "a nested pattern after & is never expanded")
    mb = _method(ctx, "destructure-binding", "map")
    tr = _children_traversals(mb, "(:other children)")
    ok = len(tr) == 1
    ctx.ob("C09.R5", f"{CORE}::destructure-binding :map::nested patterns expanded once ({len(tr)} traversal(s))", CORE, mb.line, ok,
           "" if ok else f"nested map children are expanded {len(tr)} times")
    defs = L.top_defs(ctx.lisp(CORE))
    ck = defs.get("-collect-keyword-args")
    if ck is None:
        raise AnalysisError("anchor vanished: core.lpy::-collect-keyword-args")
    tests = [f for f in L.walk(ck) if L.head(f) == "if" and any(L.head(x) == "map?" for x in L.walk(f.items[1]))]
    ok = bool(tests) and all(any(L.head(x) in ("odd?", "even?") for x in L.walk(t.items[1])) for t in tests)
    ctx.ob("C09.R5", f"{CORE}::-collect-keyword-args::a trailing map is recognised only when unpaired", CORE, ck.line, ok,
           "" if ok else "the last keyword argument is spliced as a trailing map whenever it is a map, even when it is the value of the last key: the pairs no longer add up",
           witness="((fn [& {:keys [c]}] c) :c {:x 1}) must be {:x 1}")


@rule("C09.R8", floor=4)
def r8_syntax_quote_rebuilds_each_collection_kind_at_every_size(ctx):
    """A syntax-quoted collection is rebuilt at run time by a constructor of its own kind applied to
    the concatenated pieces: (apply vector ..), (apply hash-set ..), (apply hash-map ..) give the
    empty collection for no pieces -- but (seq (concat)) is nil, so the list branch must answer the
    empty list separately with a list constructor."""
    pf = ctx.fn(RD, "_process_syntax_quoted_form")
    want = {"vec.PersistentVector": "_VECTOR", "lset.PersistentSet": "_HASH_SET", "lmap.PersistentMap": "_HASH_MAP"}
    seen = set()
    for i in ast.walk(pf):
        if not (isinstance(i, ast.If) and isinstance(i.test, ast.Call) and P.un(i.test.func) == "isinstance" and len(i.test.args) == 2):
            continue
        kind = P.un(i.test.args[1])
        rets = [r for s in i.body for r in ast.walk(s) if isinstance(r, ast.Return) and r.value is not None]
        if kind in want:
            seen.add(kind)
            ok = bool(rets) and all(f"_APPLY, {want[kind]}" in P.un(r.value) for r in rets)
            ctx.ob("C09.R8", f"{RD}::_process_syntax_quoted_form::{kind} rebuilt with (apply {want[kind][1:].lower().replace('_', '-')} ...)", RD, i.lineno, ok,
                   "" if ok else f"a syntax-quoted {kind} is not rebuilt by its own constructor: the enclosing collection type is lost")
        elif kind == "llist.PersistentList":
            seen.add(kind)
            seq_rets = [r for r in rets if "_SEQ" in P.un(r.value)]
            empties = [x for x in ast.walk(i) if isinstance(x, ast.If) and x is not i and P.un(x.test) in ("len(form) == 0", "not form", "form.is_empty", "count(form) == 0")]
            ok = (not seq_rets) or any(any(isinstance(r, ast.Return) and r.value is not None and "_SEQ" not in P.un(r.value) and "_LIST" in P.un(r.value) for s in e.body for r in ast.walk(s)) for e in empties)
            ctx.ob("C09.R8", f"{RD}::_process_syntax_quoted_form::the empty list is rebuilt as a list", RD, i.lineno, ok,
                   "" if ok else "every list, the empty one included, becomes (seq (concat ...)): for no pieces that is nil, so `() is nil, (list? `()) is false and `'() is (quote nil)",
                   witness="(list? `()) => false")
    if len(seen) < 4:
        raise AnalysisError(f"_process_syntax_quoted_form: only the collection branches {sorted(seen)} were found")


def _unthread(form):
    """(->> a (f x) (g y)) as nested calls (g y (f x a)); other forms as they are.  Returns a list
    [head-text, [argument forms...]] for the outermost call, or None."""
    if L.head(form) in ("->>", "->") and len(form.items) >= 2:
        last = L.head(form) == "->>"
        cur = form.items[1]
        for step in form.items[2:]:
            if isinstance(step, L.List) and step.items:
                args = list(step.items[1:])
                cur = ("call", step.items[0].text(), (args + [cur]) if last else ([cur] + args))
            else:
                cur = ("call", step.text(), [cur])
        return cur
    if isinstance(form, L.List) and form.items:
        return ("call", form.items[0].text(), list(form.items[1:]))
    return None


def _mentions(x, name):
    if isinstance(x, tuple):
        return any(_mentions(a, name) for a in x[2])
    return any(isinstance(s, L.Sym) and s.val == name for s in L.walk(x))


@rule("C09.R7", floor=3)
def r7_destructured_names_are_bound_in_source_order(ctx):
    """A parameter or binding vector reads left to right like a let: a later pattern or init may
    use, and shadows, the names bound before it.  (a) fn: the let* that destructures the
    parameters lists the positional patterns before the rest pattern.  (b) loop: the init
    expressions are evaluated in a let* that destructures each pattern right after its init (so
    the next init sees its names), and the loop* underneath only re-binds the carried values."""
    defs = L.top_defs(ctx.lisp(CORE))
    fa = defs.get("fn-arity-with-destructuring")
    if fa is None:
        raise AnalysisError("anchor vanished: core.lpy::fn-arity-with-destructuring")
    bnd = None
    for f in L.walk(fa):
        if L.head(f) in ("let", "let*") and len(f.items) > 1 and isinstance(f.items[1], L.Vec):
            b = f.items[1].items
            for k, v in zip(b[0::2], b[1::2]):
                if isinstance(k, L.Sym) and k.val == "bindings":
                    bnd = v
    if bnd is None:
        raise AnalysisError("fn-arity-with-destructuring no longer computes `bindings`")
    call = _unthread(bnd)
    ok, why = False, f"`bindings` is not a concat of the positional and the rest bindings: {bnd.text()[:80]}"
    if call is not None and call[1] == "concat" and len(call[2]) >= 2:
        pos_rest = [i for i, a in enumerate(call[2]) if _mentions(a, "rest-binding")]
        pos_defs = [i for i, a in enumerate(call[2]) if _mentions(a, "defs")]
        if pos_rest and pos_defs:
            ok = max(pos_defs) < min(pos_rest)
            why = "" if ok else "the rest parameter's bindings come before the positional parameters' in the generated let*: a rest pattern cannot use a positional name, and of two equal names the positional one wins"
    ctx.ob("C09.R7", f"{CORE}::fn-arity-with-destructuring::positional patterns are destructured before the rest pattern", CORE, bnd.line, ok, why,
           witness="((fn [[x] & [x]] x) [1] 2) => 1, the same patterns in let give 2")
    lp = defs.get("loop")
    if lp is None or L.head(lp) != "defmacro":
        raise AnalysisError("anchor vanished: core.lpy::loop macro")
    templates = [f for f in L.walk(lp) if isinstance(f, L.Wrap) and f.tag == "syntax-quote" and any(L.head(x) == "loop*" for x in L.walk(f.form))]
    if not templates:
        raise AnalysisError("the loop macro no longer expands into loop*")
    destructuring = [t for t in templates if any(L.head(x) in ("let*", "let") for x in L.walk(t.form))]
    if not destructuring:
        raise AnalysisError("the loop macro has no template that destructures")
    for t in destructuring:
        outer = t.form
        ok = L.head(outer) in ("let*", "let") and len(outer.items) >= 3 and any(L.head(x) == "loop*" for x in outer.items[2:])
        why = "" if ok else "the destructuring template does not evaluate the inits in a let* around the loop*: a later init expression cannot see the names an earlier pattern binds"
        if ok:
            # what is spliced into the outer let*: computed from the inits *and* destructure-binding
            spl = [x.form.text() for x in L.walk(outer.items[1]) if isinstance(x, L.Wrap) and x.tag == "unquote-splicing"]
            src = None
            for f in L.walk(lp):
                if L.head(f) in ("let", "let*") and len(f.items) > 1 and isinstance(f.items[1], L.Vec):
                    b = f.items[1].items
                    for k, v in zip(b[0::2], b[1::2]):
                        if isinstance(k, L.Sym) and k.val in spl:
                            src = v
            ok = src is not None and _mentions(src, "destructure-binding") and _mentions(src, "bindings")
            why = "" if ok else "the let* around the loop* does not interleave each init with the destructuring of its pattern"
            lstar = next(x for x in outer.items[2:] if L.head(x) == "loop*")
            inits_in_loop = any(isinstance(x, L.Wrap) and x.tag in ("unquote", "unquote-splicing") and _mentions(x.form, "bindings") for x in L.walk(lstar.items[1]))
            if ok and inits_in_loop:
                ok, why = False, "the loop* binding vector still contains the user's init expressions"
        ctx.ob("C09.R7", f"{CORE}::loop::inits are evaluated in a let* that destructures as it goes", CORE, t.line, ok, why,
               witness="(loop [[a b] [1 2] c a] c) => unable to resolve symbol 'a' (or the value of a Var named a)")
    plain = [t for t in templates if t not in destructuring]
    ctx.ob("C09.R7", f"{CORE}::loop::plain symbol bindings expand to loop* as they are", CORE, lp.line, bool(plain), "" if plain else "every loop now goes through the destructuring template")


class _As:
    """ctx proxy that files another property's rule under an id of this property."""

    def __init__(self, ctx, rid):
        self._ctx, self._rid = ctx, rid

    def __getattr__(self, name):
        return getattr(self._ctx, name)

    def ob(self, _rid, *a, **k):
        return self._ctx.ob(self._rid, *a, **k)


@rule("C09.R10", floor=2)
def r10_template_symbols_are_not_captured_by_outer_parameters(ctx):
    """A syntax-quoted template names a Var of its namespace by a qualified symbol; where the macro is
    expanded, that symbol must denote the Var whatever locals are in scope there.  The generator
    compiles it to a bare Python global unless a Python local of that name is in scope, and a nested
    closure (fn, #(), the fns that for / delay / lazy-seq wrap around their bodies) has the
    parameters of every enclosing function in scope.  This is C10.R12's check of the symbol-table
    test, decided here as well because its failure is a failure of template hygiene."""
    from . import C10
    C10.r12_the_local_name_test_sees_every_enclosing_function(_As(ctx, "C09.R10"))


@rule("C09.R9", floor=1)
def r9_loaded_forms_are_read_one_at_a_time(ctx):
    """The reader resolves the symbols of a syntax-quoted template when it *reads* the form, against
    the aliases, interns and refers the current namespace has at that moment.  A template is
    therefore resolved where it is written only if every earlier form of the file -- the ns form, a
    require, a def that shadows a referred name -- has been evaluated before the template's form
    is read.  In load-reader (behind load, load-file, load-string) the form stream is lazy; the loop
    that walks it has to evaluate the current form before it asks for the next one."""
    defs = L.top_defs(ctx.lisp(CORE))
    lr = defs.get("load-reader")
    if lr is None:
        raise AnalysisError("anchor vanished: core.lpy::load-reader")
    comp = [f for f in L.walk(lr) if isinstance(f, L.List) and f.items and f.items[0].text().endswith("compile-and-exec-form")]
    if not comp:
        raise AnalysisError("load-reader no longer evaluates its forms with compile-and-exec-form")
    c = comp[0]
    ok, why = None, ""
    for a in L.ancestors(c):
        h = L.head(a)
        if h in ("for", "doseq", "run!", "reduce", "reduce*", "map", "mapv", "keep") and any(L.head(x) == "read-seq" for x in L.walk(a)):
            ok = True  # one element of the lazy stream is taken, then evaluated, then the next is taken
            break
        if h == "recur":
            # arguments are evaluated left to right: the evaluation must come before the stream is advanced
            idx_c = next(i for i, x in enumerate(a.items) if x is c or any(y is c for y in L.walk(x)))
            adv = [i for i, x in enumerate(a.items[1:], 1) if any(L.head(y) in ("next", "rest", "nnext", "nthnext", "nthrest", "drop") for y in L.walk(x)) and i != idx_c]
            ok = not adv or idx_c < min(adv)
            why = "" if ok else f"`{a.text()[:80]}` advances the lazy stream of forms before the current form is evaluated: the next form is read in the namespace state of *before* this form -- a template right after (ns ...), (require ... :as ...) or (in-ns ...) is resolved against the wrong aliases and interns"
            break
        if h in ("loop", "loop*", "let", "let*"):
            continue
    if ok is None:
        raise AnalysisError("load-reader: the way the forms are walked is not one of the recognised shapes")
    ctx.ob("C09.R9", f"{CORE}::load-reader::each form is evaluated before the next one is read", CORE, c.line, ok, why,
           witness="(load-string \"(ns lib (:require [basilisp.string :as cs])) (defmacro shout [s] `(cs/upper-case ~s))\") leaves cs/upper-case unresolved in the template")


_LR_OLD = "    (last\n     (for [form (read-seq {} reader)]\n       (basilisp.lang.compiler/compile-and-exec-form form\n                                                     ctx\n                                                     *ns*)))))\n"

SELFTEST = [
    {"name": "load-reader asks for the next form before it evaluates the current one", "file": CORE, "expect": "C09.R9",
     "old": _LR_OLD,
     "new": "    (loop [forms (seq (read-seq {} reader)) result nil]\n      (if forms\n        (recur (next forms) (basilisp.lang.compiler/compile-and-exec-form (first forms) ctx *ns*))\n        result))))\n"},
    {"name": "twin: load-reader as a loop that evaluates, then advances", "file": CORE, "expect": None,
     "old": _LR_OLD,
     "new": "    (loop [result nil forms (seq (read-seq {} reader))]\n      (if forms\n        (recur (basilisp.lang.compiler/compile-and-exec-form (first forms) ctx *ns*) (next forms))\n        result))))\n"},
    {"name": "syntax-quoted empty list becomes (seq (concat)) (the repaired defect)", "file": RD, "expect": "C09.R8",
     "old": "        if len(form) == 0:\n            # `(seq (concat))` would be nil, but the empty list is a list\n            return llist.l(_LIST)\n", "new": ""},
    {"name": "fn destructures the rest parameter first (the repaired defect)", "file": CORE, "expect": "C09.R7",
     "old": "        bindings (concat\n                  (->> defs\n                       (filter #(not= :symbol (:type %)))\n                       (mapcat destructure-binding))\n                  rest-binding)\n",
     "new": "        bindings (->> defs\n                      (filter #(not= :symbol (:type %)))\n                      (mapcat destructure-binding)\n                      (concat rest-binding))\n"},
    {"name": "loop destructures everything inside the body only (the repaired defect)", "file": CORE, "expect": "C09.R7",
     "old": "        `(let* [~@init-bindings]\n           (loop* [~@(interleave names names)]\n             (let* [~@inner-bindings]\n               ~@body)))))))",
     "new": "        `(loop* [~@(interleave names (take-nth 2 (drop 1 bindings)))]\n             (let* [~@inner-bindings]\n               ~@body))))))"},
    {"name": "inline template built without the Var references of the body (the repaired defect)", "file": ANA, "expect": "C09.R6",
     "old": "    __inline_var_refs(inline_arity.body.ret, var_refs)\n", "new": ""},
    {"name": "twin: resolve_alias spells the namespace argument by keyword", "file": RT, "expect": None,
     "old": "            return sym.symbol(which_var.name.name, which_var.ns.name)\n", "new": "            the_var = which_var\n            return sym.symbol(the_var.name.name, ns=the_var.ns.name)\n"},
    {"name": "resolve_alias keeps the written name of a referred Var", "file": RT, "expect": "C09.R4",
     "old": "            return sym.symbol(which_var.name.name, which_var.ns.name)\n", "new": "            return sym.symbol(s.name, which_var.ns.name)\n"},
    {"name": "nested vector patterns expanded a second time at the end (the repaired defect)", "file": CORE, "expect": "C09.R5",
     "old": "    (concat\n     sequential-args\n     rest-arg)))\n", "new": "    (concat\n     sequential-args\n     rest-arg\n     (->> (:children ddef)\n          (filter #(not= :symbol (:type %)))\n          (mapcat destructure-binding)))))\n"},
    {"name": "trailing keyword map spliced regardless of parity (the repaired defect)", "file": CORE, "expect": "C09.R5",
     "old": "      (->> (if (and (odd? (count rest-args-vec)) (map? final-rest-arg))\n", "new": "      (->> (if (map? final-rest-arg)\n"},
    {"name": "rest pattern used raw (the repaired defect)", "file": CORE, "expect": "C09.R5",
     "old": "                   (let [rest-ddef (destructure-def (second rest-arg))]\n                     {:starts  (count sequential-args)\n                      :name    (:name rest-ddef)\n                      :binding rest-ddef}))\n",
     "new": "                   {:starts (count sequential-args)\n                    :name   (second rest-arg)})\n"},
    {"name": ":or changes the key (the repaired defect)", "file": CORE, "expect": "C09.R1",
     "old": "[binding `(get ~fn-arg ~key ~(get ors binding))]", "new": "[binding `(get ~fn-arg (quote ~key) ~(get ors binding))]"},
    {"name": "kw-binding default via or", "file": CORE, "expect": "C09.R2",
     "old": "                         [sym `(get ~fn-arg ~kw ~(get ors sym))]", "new": "                         [sym `(or (get ~fn-arg ~kw) ~(get ors sym))]"},
    {"name": "positional children without the nil default", "file": CORE, "expect": "C09.R2",
     "old": "[alias `(nth ~fn-arg ~idx nil)]", "new": "[alias `(nth ~fn-arg ~idx)]"},
    {"name": "gensym env shared across templates", "file": RD, "expect": "C09.R3",
     "old": "        self._syntax_quoted.append(True)\n        self._gensym_env.append({})\n        yield\n        self._gensym_env.pop()\n        self._syntax_quoted.pop()\n", "new": "        self._syntax_quoted.append(True)\n        yield\n        self._syntax_quoted.pop()\n"},
    {"name": "unquote starts a new gensym env", "file": RD, "expect": "C09.R3",
     "old": "        self._syntax_quoted.append(False)\n        yield\n        self._syntax_quoted.pop()\n", "new": "        self._syntax_quoted.append(False)\n        self._gensym_env.append({})\n        yield\n        self._gensym_env.pop()\n        self._syntax_quoted.pop()\n"},
    {"name": "namespaced symbols skip resolution", "file": RD, "expect": "C09.R4",
     "old": "    if ctx.is_syntax_quoted and not name.endswith(\"#\") and not is_reader_macro_sym:\n        return ctx.resolve(sym.symbol(name, ns))", "new": "    if ctx.is_syntax_quoted and ns is None and not name.endswith(\"#\") and not is_reader_macro_sym:\n        return ctx.resolve(sym.symbol(name, ns))"},
]


@rule("C09.R11", floor=2)
def r11_resolution_is_asked_anew_for_every_symbol(ctx):
    """One reader context reads a whole file, and the forms read are evaluated between the reads: a
    `def`, a `require ... :refer` or an `alias` in the middle of the file changes what a bare or
    aliased symbol denotes for the templates that follow.  So `ReaderContext.resolve` asks the
    resolver it was given on *every* call -- every value it returns is the result of a
    `self._resolve(...)` call made in that invocation, none is handed out of a table filled by an
    earlier one -- and `resolve_alias` itself carries no memoising decorator."""
    tree = ctx.py(RD)
    cls = next((c for c in P.all_classes(tree) if c.name == "ReaderContext"), None)
    m = P.methods(cls).get("resolve") if cls is not None else None
    if m is None:
        raise AnalysisError("ReaderContext.resolve not found")
    init = P.methods(cls).get("__init__")
    # the attribute(s) the resolver given to the context is stored in
    slots = {t.attr for a in ast.walk(init) if isinstance(a, ast.Assign) for t in a.targets
             if P.is_self_attr(t) and any(isinstance(x, ast.Name) and x.id == "resolver" for x in ast.walk(a.value))}
    if not slots:
        raise AnalysisError("ReaderContext.__init__ does not store its resolver")
    g = CFG(m)

    ask_nodes = [nd for nd in g.nodes if nd.kind in ("stmt", "test") and nd.ast is not None and not isinstance(nd.ast, (ast.If, ast.While, ast.For, ast.Try, ast.With))
                 and any(isinstance(c, ast.Call) and P.is_self_attr(c.func) and c.func.attr in slots for c in ast.walk(nd.ast))]
    rets = [nd for nd in g.nodes if nd.kind == "stmt" and isinstance(nd.ast, ast.Return)]
    bad = [r for r in rets if r not in ask_nodes and not g.dominated(r, ask_nodes, follow_exc=True)]
    stores = [s for s, _a in P.self_attr_stores(m)] + [s for s in ast.walk(m) if isinstance(s, ast.Subscript) and isinstance(s.ctx, ast.Store) and P.is_self_attr(s.value)]
    ok = bool(rets) and bool(ask_nodes) and not bad and not stores
    why = ""
    if not ok:
        why = (f"`{P.un(bad[0].ast)[:80]}` can be reached without calling the resolver" if bad else
               f"resolve writes to the context (`{P.un(stores[0])[:60]}`)" if stores else "resolve never calls the resolver it was given")
        why += ": a symbol resolved for an earlier form of the stream keeps that meaning after a def / refer / alias evaluated in between has changed it"
    ctx.ob("C09.R11", f"{RD}::ReaderContext.resolve::every answer is a fresh call of the resolver", RD, m.lineno, ok, why,
           witness="file: (def t1 `first) (def first 1) (def t2 `first) -- t2 must be <this-ns>/first")
    ra = ctx.fn(RT, "resolve_alias")
    decs = [d for d in P.decorators(ra) if "cache" in d or "memo" in d]
    wrapped = [a for a in ctx.py(RT).body if isinstance(a, ast.Assign) and isinstance(a.value, ast.Call) and ("cache" in P.un(a.value.func)) and "resolve_alias" in P.un(a.value)]
    ok = not decs and not wrapped
    ctx.ob("C09.R11", f"{RT}::resolve_alias::not memoised", RT, ra.lineno, ok, "" if ok else f"resolve_alias is wrapped in {decs or [P.un(w)[:60] for w in wrapped]}: its answer depends on the namespace's current interns, refers and aliases, which a cache does not see change")
