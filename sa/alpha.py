"""Alpha-renaming of function locals: a behaviour-preserving whole-tree rewrite used as a benign twin.

Every function local that sa/canon.py considers renamable (bound only by Name stores of its own
function scope; closures may read it) is renamed consistently to <name>__r.  A rule whose verdict
depends on how a local is *spelled* changes its verdict on this twin -- unless the normalisation of
sa/canon.py gives the local its reference spelling back, which is what the twin exercises.  The
same twin annotates every plain assignment to a local (`x: object = v`), as adding type hints does;
sa/canon.py strips the annotations of locals before the rules run.
"""
from __future__ import annotations

import ast

from . import canon


def rename_locals(src: str, suffix: str = "__r", annotate: bool = True, kw_names=None) -> tuple[str, int]:
    tree = ast.parse(src)
    renamed = 0
    params = kw_names is not None  # parameters only when the package-wide keyword names are known
    for _q, fn in list(canon.qualnames(tree)):
        own = canon.own_nodes(fn)
        # positional parameters of private functions that nobody passes by keyword
        if params:
            ids = canon.all_identifiers(fn)
            for x in sorted(canon.renamable_params(fn, own, kw_names)):
                if x + suffix not in ids:
                    canon.rename_param(fn, own, x, x + suffix)
                    renamed += 1
        cand, used = canon._renamable(fn, own)
        for x in sorted(cand):
            if x.startswith("__") or x + suffix in used:
                continue
            canon.rename(own, x, x + suffix)
            renamed += 1
    if annotate:
        # ... and every plain assignment to a single local name gets an annotation (never evaluated
        # for a local): what a maintainer adding type hints does
        for _q, fn in list(canon.qualnames(tree)):
            own = canon.own_nodes(fn)
            if any(isinstance(n, (ast.Global, ast.Nonlocal)) for n in own):
                continue
            for parent in [fn] + [n for n in own if not isinstance(n, canon._SCOPES)]:
                for field in ("body", "orelse", "finalbody"):
                    blk = getattr(parent, field, None)
                    if not isinstance(blk, list):
                        continue
                    for i, st in enumerate(blk):
                        if isinstance(st, ast.Assign) and len(st.targets) == 1 and isinstance(st.targets[0], ast.Name):
                            blk[i] = ast.copy_location(ast.AnnAssign(target=st.targets[0], annotation=ast.Name(id="object", ctx=ast.Load()), value=st.value, simple=1), st)
    return ast.unparse(tree) + "\n", renamed
