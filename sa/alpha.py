"""Alpha-renaming of function locals: a behaviour-preserving whole-tree rewrite used as a benign twin.

Every function local that sa/canon.py considers renamable (bound only by Name stores of its own
function scope; closures may read it) is renamed consistently to <name>__r.  A rule whose verdict
depends on how a local is *spelled* changes its verdict on this twin -- unless the normalisation of
sa/canon.py gives the local its reference spelling back, which is what the twin exercises.
"""
from __future__ import annotations

import ast

from . import canon


def rename_locals(src: str, suffix: str = "__r") -> tuple[str, int]:
    tree = ast.parse(src)
    renamed = 0
    for _q, fn in list(canon.qualnames(tree)):
        own = canon.own_nodes(fn)
        cand, used = canon._renamable(fn, own)
        for x in sorted(cand):
            if x.startswith("__") or x + suffix in used:
                continue
            canon.rename(own, x, x + suffix)
            renamed += 1
    return ast.unparse(tree) + "\n", renamed
