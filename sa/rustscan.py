"""A small scanner for the one Rust file of the repository (PyO3 lazy sequences).

It blanks comments / string / char literals (keeping offsets), matches braces, and extracts
`impl X { fn f(...) {...} }` bodies and free `fn`s.  Rules then work on the blanked body text
with token-level regexes; every reported position is mapped back to a line of the real file.
"""
from __future__ import annotations

import re
from dataclasses import dataclass, field

from .core import AnalysisError


@dataclass
class RustFn:
    owner: str  # impl type name or "" for free functions
    name: str
    start: int  # offset of the body's opening brace
    end: int  # offset one past the closing brace
    line: int
    body: str  # blanked text of the body (between the braces)
    attrs: str = ""


@dataclass
class RustFile:
    rel: str
    src: str
    code: str  # same length as src, comments and literal contents blanked
    fns: list[RustFn] = field(default_factory=list)
    structs: dict = field(default_factory=dict)  # name -> (attrs text, body text, line)

    def line_of(self, off: int) -> int:
        return self.src.count("\n", 0, off) + 1

    def fn(self, owner: str, name: str) -> RustFn:
        for f in self.fns:
            if f.owner == owner and f.name == name:
                return f
        raise AnalysisError(f"anchor vanished: {self.rel}::{owner}::{name}")

    def fns_of(self, owner: str) -> list[RustFn]:
        return [f for f in self.fns if f.owner == owner]


def _blank(src: str) -> str:
    out = list(src)
    i, n = 0, len(src)

    def blank(a, b):
        for k in range(a, b):
            if out[k] != "\n":
                out[k] = " "

    while i < n:
        c = src[i]
        if c == "/" and src.startswith("//", i):
            j = src.find("\n", i)
            j = n if j < 0 else j
            blank(i, j)
            i = j
        elif c == "/" and src.startswith("/*", i):
            depth, j = 1, i + 2
            while j < n and depth:
                if src.startswith("/*", j):
                    depth += 1; j += 2
                elif src.startswith("*/", j):
                    depth -= 1; j += 2
                else:
                    j += 1
            blank(i, j)
            i = j
        elif c == '"':
            j = i + 1
            while j < n and src[j] != '"':
                j += 2 if src[j] == "\\" else 1
            blank(i + 1, j)
            i = j + 1
        elif c == "r" and re.match(r'r#*"', src[i:i + 8]) and (i == 0 or not (src[i - 1].isalnum() or src[i - 1] == "_")):
            m = re.match(r'r(#*)"', src[i:])
            close = '"' + m.group(1)
            j = src.find(close, i + len(m.group(0)))
            j = n if j < 0 else j
            blank(i + len(m.group(0)), j)
            i = j + len(close)
        elif c == "'":
            # char literal or lifetime
            m = re.match(r"'(\\.[^']*|[^'\\])'", src[i:i + 12])
            if m:
                blank(i + 1, i + len(m.group(0)) - 1)
                i += len(m.group(0))
            else:
                i += 1
        else:
            i += 1
    return "".join(out)


def _match_brace(code: str, open_off: int) -> int:
    depth = 0
    for k in range(open_off, len(code)):
        if code[k] == "{":
            depth += 1
        elif code[k] == "}":
            depth -= 1
            if depth == 0:
                return k + 1
    raise AnalysisError("unbalanced braces in Rust source")


_FN = re.compile(r"\bfn\s+([A-Za-z_][A-Za-z0-9_]*)")
_IMPL = re.compile(r"\bimpl(?:<[^>]*>)?\s+(?:[A-Za-z_][A-Za-z0-9_:<>]*\s+for\s+)?([A-Za-z_][A-Za-z0-9_]*)[^{;]*\{")
_STRUCT = re.compile(r"((?:#\[[^\]]*\]\s*)*)pub\s+struct\s+([A-Za-z_][A-Za-z0-9_]*)[^{;]*\{")


def parse(src: str, rel: str) -> RustFile:
    code = _blank(src)
    rf = RustFile(rel, src, code)
    impl_ranges = []
    for m in _IMPL.finditer(code):
        open_off = m.end() - 1
        end = _match_brace(code, open_off)
        impl_ranges.append((m.group(1), open_off, end))
    for m in _STRUCT.finditer(code):
        open_off = m.end() - 1
        end = _match_brace(code, open_off)
        # attributes need the *real* text (strings inside are blanked in code)
        rf.structs[m.group(2)] = (src[m.start(1):m.end(1)], code[open_off + 1:end - 1], rf.line_of(m.start(2)))
    for m in _FN.finditer(code):
        # find the body's opening brace: first `{` after the signature at paren depth 0
        k = m.end()
        depth = 0
        open_off = None
        while k < len(code):
            ch = code[k]
            if ch in "(<[":
                depth += 1 if ch != "<" else 0
            elif ch in ")]":
                depth -= 1
            elif ch == ";" and depth == 0:
                break  # declaration without body
            elif ch == "{" and depth == 0:
                open_off = k
                break
            k += 1
        if open_off is None:
            continue
        end = _match_brace(code, open_off)
        owner = ""
        for name, a, b in impl_ranges:
            if a < m.start() < b:
                owner = name
        # attributes immediately preceding
        pre = src[max(0, m.start() - 300):m.start()]
        attrs = " ".join(re.findall(r"#\[[^\]]*\]", pre.split("}")[-1]))
        rf.fns.append(RustFn(owner, m.group(1), open_off, end, rf.line_of(m.start()), code[open_off + 1:end - 1], attrs))
    return rf
