"""Runner: ./check <Cxx> [quick|thorough] [--replay FILE] [--repo DIR] [--overlay DIR] [--no-evidence]

exit 0  every obligation discharged or listed in known_findings.json (KNOWN-FINDING lines)
exit 1  a violated obligation not listed: `VIOLATION property=<id> replay=<file>`
exit 2  ANALYSIS-ERROR (anchor vanished / unsupported construct / floor not met / checker bug)
"""
from __future__ import annotations

import importlib
import json
import os
import sys
import time
import traceback

HERE = os.path.dirname(os.path.abspath(__file__))
VERIF = os.path.dirname(HERE)
if VERIF not in sys.path:
    sys.path.insert(0, VERIF)

from sa import core  # noqa: E402

ASSUMPTIONS_COMMON = [
    "the sources under /repo/src and /repo/rust are what is built and run (the prebuilt _lang.abi3.so corresponds to rust/src/basilisp_native/seq.rs)",
    "CPython semantics of the constructs the rules interpret (statement order, `with` releases on every exit, short-circuit and/or, `is`)",
    "the fact tables under /verif/sa/facts (one line of reason per entry)",
]


def analyse(prop: str, tier: str, root: str, overlay=None, known=None):
    """Returns (ctx, per_rule) with obligations classified.  Raises AnalysisError."""
    mod = importlib.import_module(f"sa.rules.{prop}")
    ctx = core.Ctx(root=root, overlay=overlay, tier=tier)
    rules = core.collect_rules(mod)
    per_rule = core.run_rules(ctx, prop, rules, tier)
    core.classify(ctx.obligations, core.load_known() if known is None else known)
    # a floor miss is an analysis error unless the same run already pins a violation on a
    # concrete construct (then the violation is the more useful report)
    if ctx.floor_misses and not any(o.status == "violated" for o in ctx.obligations):
        raise core.AnalysisError("; ".join(ctx.floor_misses))
    return ctx, per_rule, mod


def write_evidence(prop, tier, seed, ctx, per_rule, mod, wall, extra=None, path=None):
    obs = ctx.obligations
    discharged = [o for o in obs if o.status == "discharged"]
    violated = [o for o in obs if o.status == "violated"]
    known = [o for o in obs if o.status == "known-finding"]
    samples = []
    # one sample per rule first, then the non-discharged ones
    seen_rules = set()
    for o in obs:
        if o.rule not in seen_rules:
            seen_rules.add(o.rule)
            samples.append(o.to_json())
    for o in violated + known:
        j = o.to_json()
        if j not in samples:
            samples.append(j)
    cov = {
        "explanation": getattr(mod, "EXPLANATION", "") or "static rules over the current source tree; see DESIGN.md",
        "obligations": len(obs),
        "discharged": len(discharged),
        "known_findings": len(known),
        "violated": len(violated),
        "evaluations": len(obs),
        "distinct_nontrivial": len({(o.rule, o.instance) for o in obs}),
        "rule": "one obligation per (rule, construct) instance found in the current source; distinct = distinct (rule, normalised construct) keys; every instance is non-trivial in the sense that the rule had to inspect a concrete construct of /repo",
        "rules": per_rule,
        "samples": samples[:60],
        "all_obligations": [o.to_json() for o in obs] if len(obs) <= 400 else f"{len(obs)} (truncated; samples above)",
        "files_analysed": sorted(ctx.analysed["files"]),
        "functions_analysed": sorted(ctx.analysed["functions"]),
        "tables_consulted": sorted(ctx.analysed["tables"]),
        "notes": ctx.notes,
        "checker_cmd": f"./check {prop} {tier}",
        "trusted_base": getattr(mod, "TRUSTED", []),
        "exhaustive": bool(getattr(mod, "EXHAUSTIVE", False)),
        "decides": getattr(mod, "DECIDES", ""),
        "declined": getattr(mod, "DECLINED", ""),
    }
    if extra:
        cov.update(extra)
    ev = {
        "property_id": prop,
        "tier": tier,
        "seed": seed,
        "level": "other",
        "coverage": cov,
        "assumptions": ASSUMPTIONS_COMMON + list(getattr(mod, "ASSUMPTIONS", [])),
        "wall_s": round(wall, 3),
        "violations": len(violated),
    }
    path = path or os.path.join(VERIF, "evidence", f"{prop}.json")
    os.makedirs(os.path.dirname(path), exist_ok=True)
    tmp = path + ".tmp"
    with open(tmp, "w") as f:
        json.dump(ev, f, indent=1, sort_keys=False)
        f.write("\n")
    os.replace(tmp, path)
    return ev


def main(argv=None) -> int:
    argv = list(sys.argv[1:] if argv is None else argv)
    if not argv:
        print(__doc__)
        return 2
    prop = argv.pop(0)
    tier = os.environ.get("VERIF_TIER", "quick")
    root = core.DEFAULT_REPO
    overlay = None
    replay = None
    write_ev = True
    ev_path = None
    while argv:
        a = argv.pop(0)
        if a in ("quick", "thorough"):
            tier = a
        elif a == "--replay":
            replay = argv.pop(0)
        elif a == "--repo":
            root = argv.pop(0)
        elif a == "--overlay":
            overlay = argv.pop(0)
        elif a == "--no-evidence":
            write_ev = False
        elif a == "--evidence":
            ev_path = argv.pop(0)
        else:
            print(f"unknown argument {a}")
            return 2
    try:
        seed = int(os.environ.get("VERIF_SEED", "0"))
    except ValueError:
        seed = 0
    t0 = time.time()
    try:
        ctx, per_rule, mod = analyse(prop, tier, root, overlay)
        extra = {}
        if tier == "thorough" and not replay:
            from sa import selftest

            st = selftest.run_for(prop, root)
            extra["selftest"] = st["summary"]
            if st["failures"]:
                for f in st["failures"]:
                    print(f"SELFTEST-FAILURE: {f}")
                raise core.AnalysisError(f"checker self-test failed for {prop}: {len(st['failures'])} case(s)")
    except core.AnalysisError as e:
        print(f"ANALYSIS-ERROR property={prop} {e}")
        return 2
    except Exception:  # checker bug: never masquerade as a violation
        traceback.print_exc()
        print(f"ANALYSIS-ERROR property={prop} internal error in the checker")
        return 2
    wall = time.time() - t0

    if replay:
        with open(replay) as f:
            want = json.load(f)
        hit = [o for o in ctx.obligations if o.rule == want["rule"] and o.instance == core.norm_ws(want["instance"])]
        if not hit:
            print(f"replay: obligation {want['rule']} {want['instance']} no longer exists in the tree")
            return 0
        rc = 0
        for o in hit:
            print(f"replay: {o.rule} {o.status} at {o.file}:{o.line}\n  instance: {o.instance}\n  detail: {o.detail}")
            if o.status == "violated":
                print(f"VIOLATION property={prop} replay={replay}")
                rc = 1
        return rc

    if write_ev:
        write_evidence(prop, tier, seed, ctx, per_rule, mod, wall, extra, ev_path)

    obs = ctx.obligations
    known = [o for o in obs if o.status == "known-finding"]
    violated = [o for o in obs if o.status == "violated"]
    print(
        f"{prop} {tier}: {len(obs)} obligations over {len(per_rule)} rules, "
        f"{len(obs) - len(known) - len(violated)} discharged, {len(known)} known findings, {len(violated)} violated "
        f"({wall:.2f}s)"
    )
    for rid, info in per_rule.items():
        print(f"  {rid}: {info['instances']} instance(s) (floor {info['floor']})")
    for n in ctx.notes:
        print(f"  NOTE: {n}")
    for o in known:
        print(f"KNOWN-FINDING: property={prop} {o.rule} {o.instance} -- {o.detail} [witness: {o.witness}]")
    if violated:
        vdir = os.path.join(VERIF, "evidence", "violations")
        os.makedirs(vdir, exist_ok=True)
        for i, o in enumerate(violated):
            p = os.path.join(vdir, f"{prop}-{i}.json")
            with open(p, "w") as f:
                json.dump({"property": prop, "rule": o.rule, "instance": o.instance, "at": f"{o.file}:{o.line}", "detail": o.detail}, f, indent=1)
            print(f"  {o.rule} VIOLATED at {o.file}:{o.line}: {o.detail}\n    instance: {o.instance}")
            print(f"VIOLATION property={prop} replay={p}")
        return 1
    return 0


if __name__ == "__main__":
    sys.exit(main())
