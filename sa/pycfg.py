"""Statement-level control-flow graph for one Python function, with short-circuit decomposed
branch tests and labelled edges, plus the path queries the rules need.

Node kinds:  entry, exit (normal return / fall off), raise (exception leaves the function),
stmt (a simple statement), test (an atomic branch condition; out-edges labelled True/False),
iter (a `for` header; True = next item, False = exhausted), with (with-enter), withexit,
handler (except clause header), join (no-op).

Exceptional edges (label 'exc') leave every stmt/test/iter/with node for which `may_raise(node)`
is true; by default a node may raise iff it contains a Call, a Subscript, an Attribute load on a
non-self name, a BinOp, `raise` or `assert`.  Rules pass their own predicate when they need a
tighter fact table.
"""
from __future__ import annotations

import ast
from typing import Callable, Iterable, Optional

from .pyfacts import un, walk_local


class Node:
    __slots__ = ("id", "kind", "ast", "succ", "pred")

    def __init__(self, nid, kind, node=None):
        self.id = nid
        self.kind = kind
        self.ast = node
        self.succ: list[tuple["Node", object]] = []
        self.pred: list[tuple["Node", object]] = []

    def __repr__(self):
        t = un(self.ast)[:60] if self.ast is not None else ""
        return f"<{self.id}:{self.kind} {t}>"

    @property
    def line(self):
        return getattr(self.ast, "lineno", 0)


def default_may_raise(node: ast.AST) -> bool:
    if isinstance(node, (ast.Raise, ast.Assert)):
        return True
    for n in walk_local(node, include_self=True):
        if isinstance(n, (ast.Call, ast.Subscript, ast.BinOp, ast.Await, ast.Yield, ast.YieldFrom)):
            return True
        if isinstance(n, ast.Attribute) and isinstance(n.ctx, ast.Load):
            return True
    return False


class CFG:
    def __init__(self, func: ast.AST, may_raise: Optional[Callable[[ast.AST], bool]] = None):
        self.func = func
        self.nodes: list[Node] = []
        self.may_raise = may_raise or default_may_raise
        self.entry = self._new("entry")
        self.exit = self._new("exit")
        self.raise_ = self._new("raise")
        # frames: each is dict(kind=..., ...) for loops / try / with
        self._frames: list[dict] = []
        body = func.body if not isinstance(func, ast.Lambda) else [ast.Return(value=func.body)]
        outs = self._block(body, [(self.entry, None)])
        self._connect(outs, self.exit)

    # -- construction helpers ---------------------------------------------------------------
    def _new(self, kind, node=None) -> Node:
        n = Node(len(self.nodes), kind, node)
        self.nodes.append(n)
        return n

    def _edge(self, a: Node, b: Node, label=None):
        a.succ.append((b, label))
        b.pred.append((a, label))

    def _connect(self, outs, target: Node):
        for n, lab in outs:
            self._edge(n, target, lab)

    def _exc_target(self, frames: list[dict]) -> tuple[list[Node], list[dict]]:
        """Where does an exception raised under `frames` go?  Returns the handler-dispatch
        targets.  We route to: every handler of the innermost enclosing try-body frame (plus
        onward propagation if no handler is a catch-all), passing through finally copies."""
        raise NotImplementedError

    def _raise_from(self, src: Node, label="exc"):
        """Connects src to the places an exception raised at src can go."""
        self._route(src, label, "raise", None)

    def _route(self, src: Node, label, why: str, loop=None):
        """Routes an abrupt exit (`why` in raise/return/break/continue) from src outward through
        the frame stack: finally blocks are instantiated per route, with-exits are passed."""
        frames = list(self._frames)
        cur_outs = [(src, label)]
        i = len(frames) - 1
        while i >= 0:
            fr = frames[i]
            k = fr["kind"]
            if k == "try_body" and why == "raise":
                # exception may be caught by handlers
                for h in fr["handlers"]:
                    self._connect(cur_outs, h)
                if fr["catch_all"]:
                    return
                # may also propagate (no handler matches) -> through finally
                if fr["finalbody"]:
                    cur_outs = self._instantiate_finally(fr, cur_outs, i)
            elif k in ("try_body", "try_handler", "try_else"):
                if fr["finalbody"]:
                    cur_outs = self._instantiate_finally(fr, cur_outs, i)
            elif k == "with":
                wx = self._new("withexit", fr["node"])
                self._connect(cur_outs, wx)
                cur_outs = [(wx, None)]
            elif k == "loop":
                if why == "break":
                    fr["breaks"].extend(cur_outs)
                    return
                if why == "continue":
                    self._connect(cur_outs, fr["head"])
                    return
            elif k == "finally":
                pass
            i -= 1
        if why == "raise":
            self._connect(cur_outs, self.raise_)
        elif why == "return":
            self._connect(cur_outs, self.exit)
        else:  # break/continue outside loop: malformed, send to exit
            self._connect(cur_outs, self.exit)

    def _instantiate_finally(self, fr, outs, depth):
        saved = self._frames
        self._frames = saved[:depth] + [{"kind": "finally"}]
        try:
            j = self._new("join")
            self._connect(outs, j)
            res = self._block(fr["finalbody"], [(j, None)])
        finally:
            self._frames = saved
        return res

    # -- tests ------------------------------------------------------------------------------
    def _test(self, expr, ins):
        """Builds nodes for a branch condition; returns (true_outs, false_outs)."""
        if isinstance(expr, ast.BoolOp):
            t_outs, f_outs = [], []
            cur = ins
            for idx, v in enumerate(expr.values):
                t, f = self._test(v, cur)
                last = idx == len(expr.values) - 1
                if isinstance(expr.op, ast.Or):
                    t_outs.extend(t)
                    if last:
                        f_outs.extend(f)
                    else:
                        cur = f
                else:
                    f_outs.extend(f)
                    if last:
                        t_outs.extend(t)
                    else:
                        cur = t
            return t_outs, f_outs
        if isinstance(expr, ast.UnaryOp) and isinstance(expr.op, ast.Not):
            t, f = self._test(expr.operand, ins)
            return f, t
        n = self._new("test", expr)
        self._connect(ins, n)
        if self.may_raise(expr):
            self._raise_from(n)
        if isinstance(expr, ast.Constant):
            if expr.value:
                return [(n, True)], []
            return [], [(n, False)]
        return [(n, True)], [(n, False)]

    # -- statements -------------------------------------------------------------------------
    def _block(self, stmts, ins):
        cur = ins
        for s in stmts:
            if not cur:
                break  # unreachable code
            cur = self._stmt(s, cur)
        return cur

    def _simple(self, s, ins, kind="stmt"):
        n = self._new(kind, s)
        self._connect(ins, n)
        if self.may_raise(s):
            self._raise_from(n)
        return n

    def _stmt(self, s, ins):
        if isinstance(s, ast.If):
            t, f = self._test(s.test, ins)
            o1 = self._block(s.body, t)
            o2 = self._block(s.orelse, f) if s.orelse else f
            return o1 + o2
        if isinstance(s, ast.While):
            head = self._new("join", s)
            self._connect(ins, head)
            fr = {"kind": "loop", "head": head, "breaks": []}
            t, f = self._test(s.test, [(head, None)])
            self._frames.append(fr)
            body_outs = self._block(s.body, t)
            self._frames.pop()
            self._connect(body_outs, head)
            outs = self._block(s.orelse, f) if s.orelse else f
            return outs + fr["breaks"]
        if isinstance(s, (ast.For, ast.AsyncFor)):
            it = self._simple(ast.Expr(value=s.iter), ins)
            head = self._new("iter", s)
            self._edge(it, head)
            if self.may_raise(s.iter) or True:
                self._raise_from(head)  # __next__ may raise
            fr = {"kind": "loop", "head": head, "breaks": []}
            self._frames.append(fr)
            body_outs = self._block(s.body, [(head, True)])
            self._frames.pop()
            self._connect(body_outs, head)
            f = [(head, False)]
            outs = self._block(s.orelse, f) if s.orelse else f
            return outs + fr["breaks"]
        if isinstance(s, (ast.With, ast.AsyncWith)):
            w = self._new("with", s)
            self._connect(ins, w)
            if any(self.may_raise(it.context_expr) for it in s.items):
                self._raise_from(w)
            self._frames.append({"kind": "with", "node": s})
            outs = self._block(s.body, [(w, None)])
            self._frames.pop()
            wx = self._new("withexit", s)
            self._connect(outs, wx)
            return [(wx, None)]
        if isinstance(s, ast.Try) or s.__class__.__name__ == "TryStar":
            handlers = []
            catch_all = False
            for h in s.handlers:
                hn = self._new("handler", h)
                handlers.append(hn)
                if h.type is None or un(h.type) in ("BaseException",):
                    catch_all = True
            fr = {
                "kind": "try_body",
                "handlers": handlers,
                "catch_all": catch_all,
                "finalbody": s.finalbody,
            }
            self._frames.append(fr)
            j = self._new("join")
            self._connect(ins, j)
            body_outs = self._block(s.body, [(j, None)])
            self._frames.pop()
            outs = []
            if s.orelse:
                self._frames.append({"kind": "try_else", "finalbody": s.finalbody})
                body_outs = self._block(s.orelse, body_outs)
                self._frames.pop()
            outs.extend(body_outs)
            for h, hn in zip(s.handlers, handlers):
                self._frames.append({"kind": "try_handler", "finalbody": s.finalbody})
                outs.extend(self._block(h.body, [(hn, None)]))
                self._frames.pop()
            if s.finalbody:
                jj = self._new("join")
                self._connect(outs, jj)
                outs = self._block(s.finalbody, [(jj, None)])
            return outs
        if isinstance(s, ast.Return):
            n = self._simple(s, ins)
            self._route(n, None, "return")
            return []
        if isinstance(s, ast.Raise):
            n = self._new("stmt", s)
            self._connect(ins, n)
            self._route(n, "exc", "raise")
            return []
        if isinstance(s, ast.Break):
            n = self._new("stmt", s)
            self._connect(ins, n)
            self._route(n, None, "break")
            return []
        if isinstance(s, ast.Continue):
            n = self._new("stmt", s)
            self._connect(ins, n)
            self._route(n, None, "continue")
            return []
        if isinstance(s, ast.Assert):
            t, f = self._test(s.test, ins)
            for n, lab in f:
                r = self._new("stmt", s)
                self._edge(n, r, lab)
                self._route(r, "exc", "raise")
            return t
        if isinstance(s, ast.Match):
            subj = self._simple(ast.Expr(value=s.subject), ins)
            outs = []
            cur = [(subj, None)]
            for c in s.cases:
                cn = self._new("test", c.pattern)
                self._connect(cur, cn)
                tt = [(cn, True)]
                if c.guard is not None:
                    tt, gf = self._test(c.guard, tt)
                else:
                    gf = []
                outs.extend(self._block(c.body, tt))
                cur = [(cn, False)] + gf
            return outs + cur
        if isinstance(s, (ast.FunctionDef, ast.AsyncFunctionDef, ast.ClassDef)):
            n = self._new("stmt", s)
            self._connect(ins, n)
            return [(n, None)]
        # simple statements
        n = self._simple(s, ins)
        return [(n, None)]

    # -- queries ----------------------------------------------------------------------------
    def nodes_where(self, pred: Callable[[Node], bool]) -> list[Node]:
        return [n for n in self.nodes if pred(n)]

    def nodes_for_ast(self, a: ast.AST) -> list[Node]:
        """CFG nodes whose ast is `a` or contains `a` (innermost statement/test)."""
        from .pyfacts import contains

        best = [n for n in self.nodes if n.ast is not None and n.kind in ("stmt", "test", "iter", "with") and (n.ast is a or contains(n.ast, a))]
        # prefer test nodes / simple stmt; exclude compound statement containers
        return best

    def reach(self, starts: Iterable[Node], *, avoid: Iterable[Node] = (), avoid_edges: Callable[[Node, Node, object], bool] = None, follow_exc: bool = True) -> set[int]:
        av = {n.id for n in avoid}
        seen: set[int] = set()
        stack = [s for s in starts if s.id not in av]
        while stack:
            n = stack.pop()
            if n.id in seen:
                continue
            seen.add(n.id)
            for m, lab in n.succ:
                if m.id in av or m.id in seen:
                    continue
                if not follow_exc and lab == "exc":
                    continue
                if avoid_edges and avoid_edges(n, m, lab):
                    continue
                stack.append(m)
        return seen

    def dominated(self, target: Node, by: Iterable[Node], follow_exc: bool = True) -> bool:
        """Every path entry -> target passes through some node of `by`."""
        r = self.reach([self.entry], avoid=list(by), follow_exc=follow_exc)
        return target.id not in r

    def edge_dominated(self, target: Node, edge_pred: Callable[[Node, Node, object], bool]) -> bool:
        """Every path entry -> target uses an edge satisfying edge_pred  <=>  removing those
        edges makes target unreachable."""
        r = self.reach([self.entry], avoid_edges=edge_pred)
        return target.id not in r

    def can_reach_without(self, start: Node, goals: Iterable[Node], avoid: Iterable[Node], follow_exc: bool = True) -> bool:
        """Is some goal reachable from start (exclusive) on a path avoiding `avoid`?"""
        firsts = [m for m, lab in start.succ if follow_exc or lab != "exc"]
        r = self.reach(firsts, avoid=list(avoid), follow_exc=follow_exc)
        return any(g.id in r for g in goals)

    def path_example(self, start: Node, goal: Node, avoid: Iterable[Node] = (), follow_exc=True) -> list[Node]:
        av = {n.id for n in avoid}
        prev = {start.id: None}
        q = [start]
        while q:
            n = q.pop(0)
            if n is goal and n is not start:
                break
            for m, lab in n.succ:
                if m.id in prev or m.id in av or (not follow_exc and lab == "exc"):
                    continue
                prev[m.id] = n
                q.append(m)
        if goal.id not in prev:
            return []
        out = []
        c = goal
        while c is not None:
            out.append(c)
            c = prev[c.id]
        return list(reversed(out))


def describe_path(path: list[Node]) -> str:
    return " -> ".join(f"L{n.line}:{n.kind}" for n in path if n.kind not in ("join",))
