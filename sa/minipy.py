"""A tiny interpreter for a fragment of Python ASTs, used to evaluate *comparison-only* functions
of the repository (Keyword/Symbol/PersistentVector ordering, runtime.compare, comparator
adapters) exhaustively over finite representative domains, without importing or running the
repository.  Anything outside the fragment raises Unsupported (-> ANALYSIS-ERROR), never a guess.
"""
from __future__ import annotations

import ast
import numbers
from typing import Any, Callable, Optional

from . import pyfacts as P


class Unsupported(Exception):
    pass


class PyRaise(Exception):
    """The interpreted code raised an exception of the named class."""

    def __init__(self, name, msg=""):
        super().__init__(f"{name}: {msg}")
        self.name = name


class _Return(Exception):
    def __init__(self, v):
        self.v = v


class _Break(Exception):
    pass


class _Continue(Exception):
    pass


class Obj:
    """An instance of a repository class: class model + field dict."""

    __slots__ = ("cls", "f")

    def __init__(self, cls: "ClassModel", **fields):
        self.cls = cls
        self.f = fields

    def __repr__(self):
        return f"<{self.cls.name} {self.f}>"


class ClassModel:
    def __init__(self, node: ast.ClassDef, bases: tuple["ClassModel", ...] = ()):
        self.node = node
        self.name = node.name
        self.bases = bases
        self.methods = {}
        self.props = {}
        for n in node.body:
            if isinstance(n, P.FUNC):
                decs = P.decorators(n)
                if "property" in decs:
                    self.props[n.name] = n
                elif not any(d.endswith(".setter") for d in decs):
                    self.methods[n.name] = n
        self.total_ordering = any(d.split(".")[-1] == "total_ordering" for d in P.decorators(node))
        self.overrides: dict = {}  # dunder name -> python callable(interp, self, other): a *modelled* method (trusted fact)

    def find(self, name):
        if name in self.methods:
            return self.methods[name]
        for b in self.bases:
            m = b.find(name)
            if m is not None:
                return m
        return None

    def find_prop(self, name):
        if name in self.props:
            return self.props[name]
        for b in self.bases:
            m = b.find_prop(name)
            if m is not None:
                return m
        return None

    def isa(self, name: str) -> bool:
        if self.name == name or any(b.isa(name) for b in self.bases):
            return True
        # the base classes the repository's class statement itself names (`IPersistentVector[T]`)
        return any(P.un(b).split("[")[0].split(".")[-1] == name for b in self.node.bases)


class Closure:
    def __init__(self, node, env, interp):
        self.node = node
        self.env = env
        self.interp = interp

    def __call__(self, *args):
        return self.interp.call_function(self.node, list(args), self.env)


_CMP = {
    ast.Lt: lambda a, b: a < b,
    ast.Gt: lambda a, b: a > b,
    ast.LtE: lambda a, b: a <= b,
    ast.GtE: lambda a, b: a >= b,
    ast.Eq: lambda a, b: a == b,
    ast.NotEq: lambda a, b: a != b,
    ast.In: lambda a, b: a in b,
    ast.NotIn: lambda a, b: a not in b,
}


class Host:
    """Base class of *modelled* collaborators a rule hands to the interpreter (a persistent map, a
    lock, a Var): attribute access and calls go to the Python object.  Each model is a trusted fact
    of the rule that defines it."""
_REFLECT = {"__lt__": "__gt__", "__gt__": "__lt__", "__le__": "__ge__", "__ge__": "__le__", "__eq__": "__eq__", "__ne__": "__ne__"}
_DUNDER = {ast.Lt: "__lt__", ast.Gt: "__gt__", ast.LtE: "__le__", ast.GtE: "__ge__", ast.Eq: "__eq__", ast.NotEq: "__ne__"}


class Interp:
    def __init__(self, globals_: Optional[dict] = None, type_names: Optional[dict] = None, fuel: int = 200000):
        self.globals = dict(globals_ or {})
        # isinstance(x, <name>) for primitives
        self.type_names = {
            "bool": bool, "int": int, "float": float, "str": str, "tuple": tuple,
            # the ABCs themselves: Fraction and Decimal are Numbers too (Decimal is not a Real)
            "numbers.Number": numbers.Number, "numbers.Real": numbers.Real, "Number": numbers.Number,
        }
        self.type_names.update(type_names or {})
        self.fuel = fuel
        # module-level constants that hold a tuple of class names (`_TERMINAL = (ast.Break, ast.Return)`):
        # isinstance(x, _TERMINAL) is decided against the tuple's elements
        self.spec_aliases: dict = {}

    # -- rich comparison protocol ----------------------------------------------------------
    def _call_dunder(self, obj: Obj, name: str, other):
        if name in obj.cls.overrides:
            return obj.cls.overrides[name](self, obj, other)
        m = obj.cls.find(name)
        if m is not None:
            return self.call_function(m, [obj, other], {})
        if obj.cls.total_ordering and name in ("__gt__", "__le__", "__ge__"):
            lt = obj.cls.find("__lt__")
            if lt is None:
                raise Unsupported("total_ordering without __lt__")
            r = self.call_function(lt, [obj, other], {})
            if r is NotImplemented:
                return r
            # functools.total_ordering derivations from __lt__
            if name == "__gt__":
                return (not r) and self.compare_op(ast.NotEq, obj, other)
            if name == "__le__":
                return bool(r) or self.compare_op(ast.Eq, obj, other)
            return not r
        return NotImplemented

    def compare_op(self, op, a, b):
        if op in (ast.Is, ast.IsNot):
            r = a is b
            return r if op is ast.Is else not r
        if isinstance(a, Obj) or isinstance(b, Obj):
            name = _DUNDER.get(op)
            if name is None:
                raise Unsupported(f"comparison {op}")
            if name == "__ne__":
                return not self.compare_op(ast.Eq, a, b)
            r = NotImplemented
            if isinstance(a, Obj):
                r = self._call_dunder(a, name, b)
            if r is NotImplemented and isinstance(b, Obj):
                r = self._call_dunder(b, _REFLECT[name], a)
            if r is NotImplemented:
                if name == "__eq__":
                    return a is b
                raise PyRaise("TypeError", f"'{name}' not supported")
            return r
        if any(isinstance(x, tuple) and any(isinstance(e, Obj) for e in x) for x in (a, b)):
            return self._tuple_cmp(op, a, b)
        try:
            return _CMP[op](a, b)
        except TypeError as e:
            raise PyRaise("TypeError", str(e))
        except KeyError:
            raise Unsupported(f"comparison {op}")

    def _tuple_cmp(self, op, a, b):
        if not (isinstance(a, tuple) and isinstance(b, tuple)):
            raise Unsupported("tuple vs non-tuple comparison")
        for x, y in zip(a, b):
            if not self.compare_op(ast.Eq, x, y):
                if op in (ast.Eq,):
                    return False
                if op in (ast.NotEq,):
                    return True
                return self.compare_op(op, x, y)
        return _CMP[op](len(a), len(b))

    # -- calls ---------------------------------------------------------------------------------
    def call_function(self, fn, args: list, closure_env: dict):
        self.fuel -= 1
        if self.fuel < 0:
            raise Unsupported("interpretation budget exhausted (loop?)")
        if isinstance(fn, ast.Lambda):
            env = dict(closure_env)
            self._bind(fn.args, args, env)
            return self.eval(fn.body, env)
        env = dict(closure_env)
        self._bind(fn.args, args, env)
        try:
            self.exec_block(fn.body, env)
        except _Return as r:
            return r.v
        return None

    def _bind(self, a: ast.arguments, args, env):
        params = [x.arg for x in a.posonlyargs + a.args]
        if len(args) > len(params) and a.vararg is None:
            raise PyRaise("TypeError", "too many arguments")
        defaults = a.defaults
        nd = len(defaults)
        for i, p in enumerate(params):
            if i < len(args):
                env[p] = args[i]
            else:
                j = i - (len(params) - nd)
                if j < 0:
                    raise PyRaise("TypeError", f"missing argument {p}")
                env[p] = self.eval(defaults[j], env)
        if a.vararg is not None:
            env[a.vararg.arg] = tuple(args[len(params):])

    # -- statements ----------------------------------------------------------------------------
    def exec_block(self, stmts, env):
        for s in stmts:
            self.exec(s, env)

    def exec(self, s, env):
        if isinstance(s, ast.Return):
            raise _Return(self.eval(s.value, env) if s.value is not None else None)
        if isinstance(s, ast.If):
            if self.truth(self.eval(s.test, env)):
                self.exec_block(s.body, env)
            else:
                self.exec_block(s.orelse, env)
            return
        if isinstance(s, ast.Expr):
            if isinstance(s.value, ast.Constant):
                return
            self.eval(s.value, env)
            return
        if isinstance(s, ast.Pass):
            return
        if isinstance(s, (ast.Assign, ast.AnnAssign)):
            if s.value is None:
                return
            v = self.eval(s.value, env)
            targets = s.targets if isinstance(s, ast.Assign) else [s.target]
            for t in targets:
                self._assign(t, v, env)
            return
        if isinstance(s, ast.Assert):
            if not self.truth(self.eval(s.test, env)):
                raise PyRaise("AssertionError")
            return
        if isinstance(s, ast.Raise):
            name = "Exception"
            if s.exc is not None:
                e = s.exc.func if isinstance(s.exc, ast.Call) else s.exc
                name = (P.dotted(e) or "Exception").split(".")[-1]
            raise PyRaise(name)
        if isinstance(s, ast.For):
            it = self.iterate(self.eval(s.iter, env))
            for v in it:
                self.fuel -= 1
                if self.fuel < 0:
                    raise Unsupported("budget")
                self._assign(s.target, v, env)
                try:
                    self.exec_block(s.body, env)
                except _Continue:
                    continue
                except _Break:
                    return
            self.exec_block(s.orelse, env)
            return
        if isinstance(s, ast.While):
            while self.truth(self.eval(s.test, env)):
                self.fuel -= 1
                if self.fuel < 0:
                    raise Unsupported("budget")
                try:
                    self.exec_block(s.body, env)
                except _Continue:
                    continue
                except _Break:
                    return
            self.exec_block(s.orelse, env)
            return
        if isinstance(s, ast.Break):
            raise _Break()
        if isinstance(s, ast.Continue):
            raise _Continue()
        if isinstance(s, P.FUNC):
            env[s.name] = Closure(s, env, self)
            return
        if isinstance(s, ast.With):
            # only modelled locks (Host objects flagged is_lock): single-threaded evaluation, no effect
            for it in s.items:
                cm = self.eval(it.context_expr, env)
                if not (isinstance(cm, Host) and getattr(cm, "is_lock", False)) or it.optional_vars is not None:
                    raise Unsupported(f"with {P.un(it.context_expr)}")
            self.exec_block(s.body, env)
            return
        if isinstance(s, ast.Try) and not s.finalbody and not s.orelse:
            try:
                self.exec_block(s.body, env)
            except PyRaise as e:
                for h in s.handlers:
                    names = ["BaseException"] if h.type is None else [P.un(x).split(".")[-1] for x in (h.type.elts if isinstance(h.type, ast.Tuple) else [h.type])]
                    if e.name in names or "Exception" in names or "BaseException" in names or (e.name in ("IndexError", "KeyError") and "LookupError" in names):
                        self.exec_block(h.body, env)
                        return
                raise
            return
        raise Unsupported(f"statement {type(s).__name__}: {P.un(s)[:80]}")

    def _assign(self, t, v, env):
        if isinstance(t, ast.Name):
            env[t.id] = v
        elif isinstance(t, (ast.Tuple, ast.List)):
            vs = list(self.iterate(v))
            stars = [i for i, e in enumerate(t.elts) if isinstance(e, ast.Starred)]
            if len(stars) == 1:
                i, after = stars[0], len(t.elts) - stars[0] - 1
                if len(vs) < len(t.elts) - 1:
                    raise PyRaise("ValueError", "unpack")
                for e, x in zip(t.elts[:i], vs[:i]):
                    self._assign(e, x, env)
                self._assign(t.elts[i].value, list(vs[i:len(vs) - after]), env)
                for e, x in zip(t.elts[i + 1:], vs[len(vs) - after:]):
                    self._assign(e, x, env)
                return
            if len(vs) != len(t.elts):
                raise PyRaise("ValueError", "unpack")
            for e, x in zip(t.elts, vs):
                self._assign(e, x, env)
        elif isinstance(t, ast.Attribute) and isinstance(self.eval(t.value, env), Obj):
            self.eval(t.value, env).f[t.attr] = v
        else:
            raise Unsupported(f"assignment target {P.un(t)}")

    def iterate(self, v):
        if isinstance(v, (tuple, list, str)):
            return list(v)
        if isinstance(v, Obj):
            it = v.cls.find("__iter__")
            if it is not None:
                body = [s for s in it.body if not (isinstance(s, ast.Expr) and isinstance(s.value, ast.Constant))]
                if len(body) == 1:
                    e = body[0]
                    src = None
                    if isinstance(e, ast.Expr) and isinstance(e.value, ast.YieldFrom):
                        src = e.value.value
                    elif isinstance(e, ast.Return) and isinstance(e.value, ast.Call) and P.un(e.value.func) == "iter":
                        src = e.value.args[0]
                    if src is not None:
                        return self.iterate(self.eval(src, {"self": v}))
            raise Unsupported(f"iteration over {v.cls.name}")
        raise Unsupported(f"iteration over {type(v).__name__}")

    def truth(self, v) -> bool:
        if isinstance(v, Obj):
            b = v.cls.find("__bool__")
            if b is not None:
                return bool(self.call_function(b, [v], {}))
            ln = v.cls.find("__len__")
            if ln is not None:
                return self.call_function(ln, [v], {}) != 0
            return True
        if v is NotImplemented:
            return True
        return bool(v)

    # -- expressions ---------------------------------------------------------------------------
    def eval(self, e, env):
        if isinstance(e, ast.Constant):
            return e.value
        if isinstance(e, ast.Name):
            if e.id in env:
                return env[e.id]
            if e.id in self.globals:
                return self.globals[e.id]
            if e.id == "NotImplemented":
                return NotImplemented
            if e.id in ("True", "False", "None"):
                return {"True": True, "False": False, "None": None}[e.id]
            if e.id in ("int", "float", "bool", "str", "tuple"):
                return {"int": int, "float": float, "bool": bool, "str": str, "tuple": tuple}[e.id]  # `type(x) is int`
            raise Unsupported(f"name {e.id}")
        if isinstance(e, ast.Attribute):
            d = P.dotted(e)
            if d in self.globals:
                return self.globals[d]
            base = self.eval(e.value, env)
            if isinstance(base, Host):
                try:
                    return getattr(base, e.attr)
                except AttributeError:
                    raise Unsupported(f"attribute {P.un(e)} of a modelled collaborator")
            if isinstance(base, Obj):
                if e.attr in base.f:
                    return base.f[e.attr]
                pr = base.cls.find_prop(e.attr)
                if pr is not None:
                    return self.call_function(pr, [base], {})
                m = base.cls.find(e.attr)
                if m is not None:
                    return lambda *a, _m=m, _b=base: self.call_function(_m, [_b, *a], {})
            if isinstance(base, list) and e.attr in ("append", "extend", "pop"):
                if e.attr == "extend":
                    return lambda xs, _b=base: _b.extend(self.iterate(xs))
                return getattr(base, e.attr)
            raise Unsupported(f"attribute {P.un(e)}")
        if isinstance(e, (ast.Tuple, ast.List)):
            out = []
            for x in e.elts:
                if isinstance(x, ast.Starred):
                    out.extend(self.iterate(self.eval(x.value, env)))
                else:
                    out.append(self.eval(x, env))
            if isinstance(e, ast.List) and getattr(self, "mutable_lists", False):
                return out
            return tuple(out)
        if isinstance(e, ast.BoolOp):
            v = None
            for x in e.values:
                v = self.eval(x, env)
                t = self.truth(v)
                if isinstance(e.op, ast.Or) and t:
                    return v
                if isinstance(e.op, ast.And) and not t:
                    return v
            return v
        if isinstance(e, ast.UnaryOp):
            v = self.eval(e.operand, env)
            if isinstance(e.op, ast.Not):
                return not self.truth(v)
            if isinstance(e.op, ast.USub):
                return -v
            raise Unsupported(f"unary {P.un(e)}")
        if isinstance(e, ast.Compare):
            left = self.eval(e.left, env)
            res = True
            for op, c in zip(e.ops, e.comparators):
                right = self.eval(c, env)
                res = self.compare_op(type(op), left, right)
                if not self.truth(res):
                    return res
                left = right
            return res
        if isinstance(e, ast.IfExp):
            return self.eval(e.body, env) if self.truth(self.eval(e.test, env)) else self.eval(e.orelse, env)
        if isinstance(e, ast.BinOp):
            a, b = self.eval(e.left, env), self.eval(e.right, env)
            if isinstance(a, (bool, int)) and isinstance(b, (bool, int)):
                if isinstance(e.op, ast.Sub):
                    return int(a) - int(b)
                if isinstance(e.op, ast.Add):
                    return int(a) + int(b)
                if isinstance(e.op, ast.Mult):
                    return int(a) * int(b)
            raise Unsupported(f"binop {P.un(e)} on {type(a).__name__}/{type(b).__name__}")
        if isinstance(e, ast.Call):
            return self.eval_call(e, env)
        if isinstance(e, ast.Subscript):
            base = self.eval(e.value, env)
            if not isinstance(base, (tuple, list, str)):
                raise Unsupported(f"subscript of {type(base).__name__}")
            sl = e.slice
            try:
                if isinstance(sl, ast.Slice):
                    lo = self.eval(sl.lower, env) if sl.lower is not None else None
                    hi = self.eval(sl.upper, env) if sl.upper is not None else None
                    st = self.eval(sl.step, env) if sl.step is not None else None
                    return base[lo:hi:st]
                return base[self.eval(sl, env)]
            except IndexError:
                raise PyRaise("IndexError")
        if isinstance(e, ast.Lambda):
            return Closure(e, env, self)
        if isinstance(e, (ast.ListComp, ast.GeneratorExp, ast.SetComp)):
            out = []

            def gen(i, env2):
                if i == len(e.generators):
                    out.append(self.eval(e.elt, env2))
                    return
                g = e.generators[i]
                if g.is_async:
                    raise Unsupported("async comprehension")
                for v in self.iterate(self.eval(g.iter, env2)):
                    self.fuel -= 1
                    if self.fuel < 0:
                        raise Unsupported("budget")
                    env3 = dict(env2)
                    self._assign(g.target, v, env3)
                    if all(self.truth(self.eval(c, env3)) for c in g.ifs):
                        gen(i + 1, env3)
            gen(0, dict(env))
            return tuple(out) if not isinstance(e, ast.SetComp) else frozenset(out)
        raise Unsupported(f"expression {type(e).__name__}: {P.un(e)[:80]}")

    def eval_call(self, e: ast.Call, env):
        fname = P.dotted(e.func)
        if e.keywords:
            # keyword arguments are supported for max/min(default=...) and for modelled collaborators
            # handed in through `globals` (plain Python callables, e.g. constructors of modelled nodes)
            if any(k.arg is None for k in e.keywords):
                raise Unsupported(f"**kwargs call {P.un(e)}")
            kwargs = {k.arg: self.eval(k.value, env) for k in e.keywords}
            if fname in ("max", "min") and set(kwargs) == {"default"} and len(e.args) == 1:
                items = self.iterate(self.eval(e.args[0], env))
                return (max if fname == "max" else min)(items) if items else kwargs["default"]
            f = self.globals.get(fname) if fname is not None else None
            if f is not None and callable(f) and not isinstance(f, Closure):
                args = []
                for a in e.args:
                    if isinstance(a, ast.Starred):
                        args.extend(self.iterate(self.eval(a.value, env)))
                    else:
                        args.append(self.eval(a, env))
                return f(*args, **kwargs)
            raise Unsupported(f"keyword call {P.un(e)}")
        if fname == "isinstance":
            v = self.eval(e.args[0], env)
            return self._isinstance(v, e.args[1], env)
        if fname == "len":
            v = self.eval(e.args[0], env)
            if isinstance(v, Obj):
                ln = v.cls.find("__len__")
                if ln is None:
                    raise PyRaise("TypeError", "no len")
                return self.call_function(ln, [v], {})
            return len(v)
        if fname == "zip":
            seqs = [self.iterate(self.eval(a, env)) for a in e.args]
            return list(zip(*seqs))
        if fname in ("bool",):
            return self.truth(self.eval(e.args[0], env))
        if fname in ("int", "float", "abs", "round") and len(e.args) == 1:
            v = self.eval(e.args[0], env)
            if isinstance(v, Obj):
                raise Unsupported(f"{fname}() of a modelled object")
            try:
                return {"int": int, "float": float, "abs": abs, "round": round}[fname](v)
            except (TypeError, ValueError) as ex:
                raise PyRaise(type(ex).__name__, str(ex))
        if fname == "list" and getattr(self, "mutable_lists", False) and len(e.args) == 1:
            return list(self.iterate(self.eval(e.args[0], env)))
        if fname == "enumerate" and len(e.args) == 1:
            return tuple(enumerate(self.iterate(self.eval(e.args[0], env))))
        if fname in ("tuple", "list", "iter"):
            return tuple(self.iterate(self.eval(e.args[0], env)))
        if fname == "type":
            v = self.eval(e.args[0], env)
            return v.cls if isinstance(v, Obj) else type(v)
        f = self.eval(e.func, env)
        args = []
        for a in e.args:
            if isinstance(a, ast.Starred):
                args.extend(self.iterate(self.eval(a.value, env)))
            else:
                args.append(self.eval(a, env))
        if isinstance(f, (Closure,)) or callable(f):
            return f(*args)
        raise Unsupported(f"call of {P.un(e.func)}")

    def _isinstance(self, v, spec, env=None) -> bool:
        if isinstance(spec, ast.Tuple):
            return any(self._isinstance(v, s, env) for s in spec.elts)
        name = P.dotted(spec)
        if isinstance(spec, ast.Name) and name in self.spec_aliases:
            return self._isinstance(v, self.spec_aliases[name], env)
        # a local or a module-level constant holding the class(es): `kinds = (bool, type(None))`
        if isinstance(spec, ast.Name) and name not in self.type_names and not isinstance(v, Obj):
            try:
                val = self.eval(spec, env if env is not None else {})
            except (Unsupported, PyRaise, KeyError, NameError):
                val = None
            if isinstance(val, type) or (isinstance(val, tuple) and val and all(isinstance(x, type) for x in val)):
                return isinstance(v, val)
        if isinstance(spec, ast.Call) and P.un(spec) == "type(None)":
            return v is None
        if name is None:
            raise Unsupported(f"isinstance spec {P.un(spec)}")
        if isinstance(v, Obj):
            return v.cls.isa(name.split(".")[-1])
        if name in self.type_names:
            return isinstance(v, self.type_names[name])
        short = name.split(".")[-1]
        if short in self.type_names:
            return isinstance(v, self.type_names[short])
        # a repository class name vs a primitive value
        return False
