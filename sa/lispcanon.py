"""The .lpy counterpart of sa/canon.py: let-bound locals of macro-time / function code get their
reference spelling before a rule sees the forms, and the benign twin that renames them all.

A local is handled only if it is bound exactly once in its top-level form by a simple symbol target
of a let-like form in *code* position (not inside a quote or a syntax-quoted template, except under
an unquote), every other occurrence of the name in code position lies in the scope of that binding
(the later initialisers and the body), and none of them is itself in a binding position.  Under
these conditions renaming the target and the occurrences is an alpha-renaming.  Inside templates a
symbol is data: it is never touched.
"""
from __future__ import annotations

import hashlib
import json
import os

from . import lispread as L

LETLIKE = {"let", "let*", "loop", "loop*", "if-let", "when-let", "if-some", "when-some", "when-first"}
BINDERS = LETLIKE | {"for", "doseq", "dotimes", "binding", "with-open", "with-redefs", "with", "letfn", "letfn*"}
FNLIKE = {"fn", "fn*", "defn", "defn-", "defmacro", "defasync", "bound-fn", "reify", "deftype", "defrecord", "extend-type", "extend-protocol", "defmethod", "proxy"}
ROLES_PATH = os.path.join(os.path.dirname(os.path.abspath(__file__)), "facts", "lisp_local_roles.json")
_roles = None


def roles() -> dict:
    global _roles
    if _roles is None:
        try:
            with open(ROLES_PATH, encoding="utf-8") as f:
                _roles = json.load(f)
        except OSError:
            _roles = {}
    return _roles


def code_nodes(form, mode="code"):
    """(node, is_code) in document order.  Three modes: code; quote ('x in code: everything below is
    data, a ~ there is inert); template (`x: data, except what stands under ~ / ~@ -- also under a
    quote written inside the template, '~x being (quote ~x))."""
    yield form, mode == "code"
    if isinstance(form, L.Wrap):
        if mode == "code":
            nxt = {"quote": "quote", "var": "quote", "syntax-quote": "template"}.get(form.tag, "code")
        elif mode == "template":
            nxt = "code" if form.tag in ("unquote", "unquote-splicing") else "template"
        else:
            nxt = "quote"
        yield from code_nodes(form.form, nxt)
        return
    kids = form.children()
    if mode == "code" and isinstance(form, L.List) and kids and isinstance(kids[0], L.Sym):
        h = kids[0].val
        if h in ("quote", "var"):  # the special forms written out
            for ch in kids:
                yield from code_nodes(ch, "quote")
            return
        if h == "." and len(kids) > 2 and isinstance(kids[2], L.Sym):  # (. obj member args*): a member name
            for j, ch in enumerate(kids):
                yield from code_nodes(ch, "quote" if j == 2 else mode)
            return
    for ch in kids:
        yield from code_nodes(ch, mode)


def _in_binding_position(sym) -> bool:
    """Is this symbol (possibly inside a destructuring pattern) a binding target / parameter?"""
    node = sym
    p = node.parent
    while isinstance(p, (L.Vec, L.Map)) :
        g = p.parent
        if isinstance(p, L.Vec) and isinstance(g, (L.List,)):
            h = L.head(g)
            if h in BINDERS and len(g.items) > 1 and g.items[1] is p:
                idx = next(i for i, x in enumerate(p.items) if x is node)
                if idx % 2 == 0 or h in ("letfn", "letfn*"):
                    return True
                return False
            if (h in FNLIKE and p in g.items[:5]) or (g.items and g.items[0] is p):
                return True
        node, p = p, g
    if isinstance(p, L.List) and L.head(p) == "catch" and len(p.items) > 2 and p.items[2] is sym:
        return True
    return False


def sites(top):
    """The let-like binding sites of a top-level form that stand in code position, in document order:
    (binder list, binding vector, index of the target)."""
    for node, is_code in code_nodes(top):
        if is_code and isinstance(node, L.List) and L.head(node) in LETLIKE and len(node.items) > 1 and isinstance(node.items[1], L.Vec):
            vec = node.items[1]
            for i in range(0, len(vec.items) - 1, 2):
                if isinstance(vec.items[i], L.Sym) and "/" not in vec.items[i].val and not vec.items[i].val.startswith("&"):
                    yield node, vec, i


def occurrences(top, name):
    return [n for n, is_code in code_nodes(top) if is_code and isinstance(n, L.Sym) and n.val == name]


def scope_refs(binder, vec, i, name):
    out = []
    for part in vec.items[i + 2:] + binder.items[2:]:  # the later targets/initialisers and the body, not its own initialiser
        out += [n for n, is_code in code_nodes(part) if is_code and isinstance(n, L.Sym) and n.val == name]
    return out


def renamable(top, binder, vec, i):
    """The symbols to rename for this site (target first), or None if it is not an alpha-renaming."""
    target = vec.items[i]
    name = target.val
    occ = occurrences(top, name)
    refs = scope_refs(binder, vec, i, name)
    if len(occ) != 1 + len(refs) or {id(x) for x in occ} != {id(target)} | {id(x) for x in refs}:
        return None
    if any(_in_binding_position(r) for r in refs):
        return None
    return [target] + refs


def _key(form) -> str:
    return hashlib.sha1(form.text().encode()).hexdigest()[:16]


def _top_name(top, seen) -> str:
    h = L.head(top) if isinstance(top, L.List) else None
    n = top.items[1].text() if h and len(top.items) > 1 else ""
    if h == "defmethod" and len(top.items) > 2:
        n += " " + top.items[2].text()
    q = f"{h} {n}"
    k = seen.get(q, 0)
    seen[q] = k + 1
    return q if not k else f"{q}#{k}"


def reference_table(forms) -> dict:
    out, seen = {}, {}
    for top in forms:
        q = _top_name(top, seen)
        rows, count = [], {}
        for _b, vec, i in sites(top):
            key = _key(vec.items[i + 1])
            k = count.get(key, 0)
            count[key] = k + 1
            rows.append([key, k, vec.items[i].val])
        if rows:
            out[q] = rows
    return out


def canonicalise(forms, rel: str) -> int:
    table = roles().get(rel)
    if not table:
        return 0
    total, seen = 0, {}
    for top in forms:
        rows = table.get(_top_name(top, seen))
        if not rows:
            continue
        index = {(r[0], r[1]): r[2] for r in rows}
        # an initialiser may contain let forms of its own: its text matches the reference only after
        # those inner locals were given their spelling back, hence the passes
        for _pass in range(6):
            changed = 0
            count = {}
            for binder, vec, i in list(sites(top)):
                key = _key(vec.items[i + 1])
                k = count.get(key, 0)
                count[key] = k + 1
                want = index.get((key, k))
                cur = vec.items[i].val
                if want is None or want == cur:
                    continue
                syms = renamable(top, binder, vec, i)
                if syms is None or any(isinstance(n, L.Sym) and n.val == want for n, _c in code_nodes(top)):
                    continue
                for s in syms:
                    s.val = want
                changed += 1
            total += changed
            if not changed:
                break
    return total


def rename_locals(src: str, rel: str = "<string>", suffix: str = "--r") -> tuple[str, int]:
    """The benign twin: every renamable let-bound local of every top-level form renamed, as a source
    edit at the symbols' positions (layout and comments stay)."""
    forms = L.read_all(src, rel)
    lines = src.split("\n")
    edits = []
    n = 0
    for top in forms:
        all_names = {x.val for x, _c in code_nodes(top) if isinstance(x, L.Sym)}
        done = set()
        for binder, vec, i in sites(top):
            name = vec.items[i].val
            if name in done or name + suffix in all_names or name in ("_", "&"):
                continue
            syms = renamable(top, binder, vec, i)
            if syms is None:
                continue
            done.add(name)
            n += 1
            for s in syms:
                edits.append((s.line, s.col, name))
    for line, col, name in sorted(set(edits), reverse=True):
        text = lines[line - 1]
        for c in (col, col - 1, col + 1):
            if 0 <= c and text[c:c + len(name)] == name:
                lines[line - 1] = text[:c + len(name)] + suffix + text[c + len(name):]
                break
        else:
            raise ValueError(f"{rel}:{line}:{col}: symbol {name} not found at its position")
    return "\n".join(lines), n
